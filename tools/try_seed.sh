#!/bin/bash
# tools/try_seed.sh <dir with patchN.diff/demoN.py> <N> <PROP...> [tier]
# Applies a seeded change to /repo, confirms tests pass and the demo fails, runs the check, undoes the change.
# With SEED_SCRATCH=1 the change is applied to a scratch worktree (/tmp/seedrepo) and the checks are pointed at it
# with VERIF_REPO - for use while something else (a background thorough run) is reading /repo.
d=$1; n=$2; prop=$3; tier=${4:-quick}
R=/repo
if [ -n "$SEED_SCRATCH" ]; then
  R=/tmp/seedrepo
  git -C /repo worktree remove --force $R 2>/dev/null; rm -rf $R
  git -C /repo worktree add -q --detach $R HEAD || exit 2
  export VERIF_REPO=$R
  trap 'git -C /repo worktree remove --force /tmp/seedrepo; git -C /repo worktree prune' EXIT
else
  trap 'git -C /repo checkout -- . ; git -C /repo clean -fdq sourcer 2>/dev/null' EXIT
fi
cd $R || exit 2
git diff --quiet || { echo "repo not clean"; exit 2; }
git apply "$d/patch$n.diff" || { echo "patch does not apply"; exit 2; }
t=$(cd $R && timeout 600 /venv/bin/python -m pytest -q -p no:cacheprovider 2>&1 | tail -1)
echo "tests: $t"
(cd /tmp && PYTHONPATH=$R timeout 120 /venv/bin/python "$d/demo$n.py" >/dev/null 2>&1); echo "demo exit with patch: $?"
cd /verif
for p in $prop; do
  out=$(timeout 1500 ./check $p $tier 2>&1); rc=$?
  echo "check $p $tier: exit $rc; $(echo "$out" | grep -c '^VIOLATION') VIOLATION lines"
  echo "$out" | grep -v "^VIOLATION" | grep -v "^KNOWN" | tail -4 | cut -c1-200
done
