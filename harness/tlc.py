"""Run TLC and read what it prints."""
import json
import os
import re
import shutil
import subprocess
import tempfile
import time

VERIF = os.path.dirname(os.path.dirname(os.path.abspath(__file__)))
SPEC = os.path.join(VERIF, 'spec')
JAR = '/opt/veriftools/tla/tla2tools.jar'
CM = None


class TLCError(Exception):
    pass


def scratch(prefix='verif-'):
    base = os.environ.get('VERIF_SCRATCH') or tempfile.gettempdir()
    return tempfile.mkdtemp(prefix=prefix, dir=base)


_STATS = re.compile(r'(\d+) states generated, (\d+) distinct states found')
_COV = re.compile(r'^<(\w+) line (\d+), col \d+ to line \d+, col \d+ of module (\w+)>: (\d+):(\d+)')


class TLCRun:
    def __init__(self):
        self.states = 0
        self.distinct = 0
        self.ok = False
        self.violation = None       # text of an invariant / property violation
        self.coverage = {}          # action -> [distinct, generated]
        self.log_tail = []
        self.wall = 0.0
        self.cmd = ''
        self.rc = None


def run(module, cfg=None, env=None, workers=16, timeout_s=900, on_json=None, simulate=None,
        coverage=False, xss='512m', xmx='8g', extra=None, depth=None, on_line=None, cwd=None):
    """Run TLC on spec/<module>.tla with spec/<cfg>.cfg.

    on_json(obj) is called for every printed JSON value (PrintT(ToJson(..)) lines).
    Returns a TLCRun.  Raises TLCError on machinery failure (parse errors,
    evaluation errors, timeouts)."""
    cfg = cfg or module
    meta = scratch('tlc-meta-')
    cmd = ['timeout', str(int(timeout_s)), 'tlc', '-metadir', meta, '-noGenerateSpecTE',
           '-workers', str(workers), '-config', os.path.join(cwd or SPEC, cfg + '.cfg')]
    if coverage:
        cmd += ['-coverage', '1']
    if simulate:
        cmd += ['-simulate', simulate]
    if depth:
        cmd += ['-depth', str(depth)]
    if extra:
        cmd += list(extra)
    cmd.append(os.path.join(cwd or SPEC, module + '.tla'))
    e = dict(os.environ)
    e['JAVA_TOOL_OPTIONS'] = '-Xss%s -Xmx%s -XX:+UseParallelGC' % (xss, xmx)
    if env:
        e.update({k: str(v) for k, v in env.items()})
    res = TLCRun()
    res.cmd = ' '.join(cmd)
    t0 = time.time()
    proc = subprocess.Popen(cmd, stdout=subprocess.PIPE, stderr=subprocess.STDOUT, env=e,
                            cwd=cwd or SPEC, text=True, bufsize=1 << 20)
    tail = []
    err_lines = []
    in_error = False
    try:
        for line in proc.stdout:
            line = line.rstrip('\n')
            if line.startswith('"') and line.endswith('"') and len(line) > 1:
                if on_json is not None:
                    try:
                        on_json(json.loads(json.loads(line)))
                        continue
                    except ValueError:
                        pass
                if on_line is not None:
                    on_line(line)
                continue
            if on_line is not None:
                on_line(line)
            tail.append(line)
            if len(tail) > 60:
                tail.pop(0)
            m = _STATS.search(line)
            if m:
                res.states = int(m.group(1))
                res.distinct = int(m.group(2))
            m = _COV.match(line)
            if m:
                res.coverage[m.group(1)] = [int(m.group(4)), int(m.group(5))]
            if line.startswith('Error:') or in_error:
                in_error = True
                err_lines.append(line)
                if len(err_lines) > 40:
                    in_error = False
            if 'Model checking completed. No error has been found' in line:
                res.ok = True
            if line.startswith('Progress: ') and simulate:
                pass
    finally:
        proc.wait()
        shutil.rmtree(meta, ignore_errors=True)
    res.rc = proc.returncode
    res.wall = time.time() - t0
    res.log_tail = tail
    if err_lines:
        txt = '\n'.join(err_lines)
        if 'Invariant' in txt and 'is violated' in txt or 'Action property' in txt or 'Temporal properties were violated' in txt:
            res.violation = txt
        else:
            raise TLCError('TLC error in %s: %s' % (module, txt[:3000]))
    if proc.returncode == 124:
        raise TLCError('TLC timed out after %ss: %s' % (timeout_s, res.cmd))
    if proc.returncode not in (0, 12, 13) and not res.ok and not res.violation and not simulate:
        raise TLCError('TLC exit %s: %s\n%s' % (proc.returncode, res.cmd, '\n'.join(tail[-25:])))
    return res


def oracle(cases, module='Oracle', cfg=None, workers=16, timeout_s=900, env=None, chunk=4000):
    """Ask the specification for the expected results of `cases`
    (list of dicts with id, g, runs).  Returns ({id: out}, stats)."""
    out = {}
    total_states = 0
    total_distinct = 0
    wall = 0.0
    in_vm = [0]
    d = scratch('oracle-')
    try:
        for k in range(0, len(cases), chunk):
            part = cases[k:k + chunk]
            path = os.path.join(d, 'cases-%d.ndjson' % k)
            with open(path, 'w') as f:
                for c in part:
                    # only what the specification reads (configuration is the harness's business; JSON null is not TLA+)
                    f.write(json.dumps({'id': c['id'], 'g': c['g'], 'runs': [r[:3] for r in c['runs']]}, separators=(',', ':')))
                    f.write('\n')
            ee = {'CASES': path}
            if env:
                ee.update(env)

            def got(o):
                out[o['id']] = o['out']
                if o.get('vm'):
                    in_vm[0] += 1
            r = run(module, cfg, env=ee, workers=workers, timeout_s=timeout_s, on_json=got)
            if r.violation:     # an invariant of the oracle module itself (OracleVM!VMAgrees): the specification is inconsistent
                raise TLCError('%s: %s' % (module, r.violation[:3000]))
            total_states += r.states
            total_distinct += r.distinct
            wall += r.wall
            os.unlink(path)
    finally:
        shutil.rmtree(d, ignore_errors=True)
    missing = [c['id'] for c in cases if c['id'] not in out]
    if missing:
        raise TLCError('oracle produced no result for %d cases (first ids %s)' % (len(missing), missing[:5]))
    return out, {'states': total_states, 'distinct': total_distinct, 'wall': wall, 'in_vm': in_vm[0]}
