#!/bin/bash
# Offline setup: parse every specification module and import the harness.
set -e
cd "$(dirname "$0")"
export PYTHONDONTWRITEBYTECODE=1
for f in spec/*.tla; do
  out=$(cd spec && tla-sany "$(basename "$f")" 2>&1) || { echo "$out" | tail -20; echo "SANY failed on $f"; exit 1; }
  if echo "$out" | grep -q "\*\*\* Errors"; then echo "$out" | tail -20; echo "SANY errors in $f"; exit 1; fi
done
/venv/bin/python - <<'PY'
import sys
sys.path.insert(0, 'harness')
import common, engine, pegcheck, render, realrun, tlc, gen   # noqa
print('harness imports ok')
PY
mkdir -p evidence replays
echo "setup ok"
