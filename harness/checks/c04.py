"""C04 - ignored patterns are skipped exactly at token boundaries."""
import pegcheck


def run(chk):
    chk.rule = ('cases = (grammar with ignore declarations, entry, input); TLC (MC_C04) enumerates 16 grammar shapes '
                '(every literal kind and enclosing form, class start rule, look-behind probe) x 3 ignore sets (one '
                'pattern, two patterns, a multi-token ignore rule) x declaration variants (before/after the rules, '
                'named/anonymous, ignore/ignored) x {parse through the start rule, the same body through another '
                'rule} x all inputs up to the bound over an alphabet with ignorable characters; non-trivial = matches '
                'or fails beyond the offset; distinct by (description, entry, input)')
    chk.assumptions += ['rest-capturing regexes and Backtrack(1) >> /./ make the stopping point of each skip observable',
                        'LawLengthen (lengthening ignorable runs changes no value) is model-checked on the members '
                        'that satisfy its side conditions']
    cases = pegcheck.collect(chk, 'MC_C04', 'MC_C04_' + chk.tier, timeout_s=3000)
    pegcheck.replay(chk, cases, sample_every=9973)
