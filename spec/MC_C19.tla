------------------------------- MODULE MC_C19 -------------------------------
(***************************************************************************)
(* C19 - alternative spellings are interchangeable.                        *)
(* Part "spell": abstract expressions (parent/child pairs of the forms     *)
(* that have two spellings) x spelling vectors (all operator forms, all    *)
(* constructor forms, mixed per node; definition sign = : =>; statement    *)
(* separator newline or ;; comments; redundant parentheses; line breaks    *)
(* around operators; ignore / ignored; bare expression vs start = expr).   *)
(* Part "chain": unparenthesised operator chains; the expression they      *)
(* denote is Meta!Group(chain) (precedence table of grammar.txt).          *)
(* In both parts the expected outcome is PegSem on the abstract            *)
(* expression - the spelling is only known to the renderer.                *)
(***************************************************************************)
EXTENDS Meta

CONSTANTS Tier

comma == 44
A1 == Str(<<a>>)
B1 == Str(<<b>>)
AB == Str(<<a, b>>)
Cm == Str(<<comma>>)

Atoms == {A1, B1, AB, Ref("R")}
UF == {"opt", "star", "plus", "r12", "r2", "r0"}
BF == {"seq", "left", "right", "choice", "sep", "sept", "sepk"}

U(f, x) == CASE f = "opt" -> Opt(x) [] f = "star" -> Star(x) [] f = "plus" -> Plus(x)
             [] f = "r12" -> Rep(x, Nb(1), Nb(2)) [] f = "r2" -> Rep(x, Nb(2), Nb(2))
             [] f = "r0" -> Rep(x, Nb(0), Nb(0))            \* e{0} / List(e, max_len=0)
Bn(f, x, y) == CASE f = "seq" -> Seq2(x, y) [] f = "left" -> Left(x, y) [] f = "right" -> Right(x, y)
                 [] f = "choice" -> Ch2(x, y) [] f = "sep" -> SepPlain(x, y) [] f = "sept" -> SepTrailer(x, y)
                 [] f = "sepk" -> Sep(x, y, <<FALSE, TRUE, FALSE, FALSE>>)     \* only the constructor form exists

Shape(r) ==
    LET k == r[1] IN
    CASE k = 1 -> U(r[2], r[4])
      [] k = 2 -> Bn(r[2], r[4], r[5])
      [] k = 3 -> U(r[2], Bn(r[3], r[4], r[5]))
      [] k = 4 -> Bn(r[2], U(r[3], r[4]), r[5])
      [] k = 5 -> Bn(r[2], r[4], U(r[3], r[5]))
      [] k = 6 -> Bn(r[2], Bn(r[3], r[4], r[5]), r[6])
      [] k = 7 -> U(r[2], U(r[3], r[4]))

Recipes ==
         {<<1, f, "", x, A1, A1>> : f \in UF, x \in Atoms}
    \cup {<<2, f, "", x, y, A1>> : f \in BF, x \in Atoms, y \in {A1, B1, Cm}}
    \cup {<<3, f, g, x, y, A1>> : f \in UF, g \in BF, x \in {A1, AB}, y \in {B1, Cm}}
    \cup {<<4, f, g, x, y, A1>> : f \in BF, g \in UF, x \in {A1, AB}, y \in {B1, Cm}}
    \cup {<<5, f, g, x, y, A1>> : f \in BF, g \in UF, x \in {A1, AB}, y \in {B1, Cm}}
    \cup {<<6, f, g, x, y, z>> : f \in BF, g \in BF, x \in {A1}, y \in {B1, Cm}, z \in {A1, Cm}}
    \cup {<<7, f, g, x, A1, A1>> : f \in {"opt", "star"}, g \in {"plus", "r12", "r2"}, x \in {A1, AB}}

(* spelling vectors: <<variant, seed, definer, sep, comments, parens, break_ops, bare>> *)
Spellings ==
    { <<0, 0, "=", "nl", FALSE, FALSE, FALSE, FALSE>>,          \* all operator forms
      <<1, 0, ":", ";", FALSE, FALSE, FALSE, FALSE>>,           \* all constructor forms, ":" and ";"
      <<2, 1, "=>", "nl", TRUE, TRUE, TRUE, FALSE>>,            \* mixed per node, comments, parentheses, line breaks
      <<2, 2, "mix", ";", TRUE, FALSE, TRUE, FALSE>>,
      <<2, 3, "=", "nl", FALSE, TRUE, FALSE, TRUE>>,            \* bare expression instead of start = ...
      <<0, 4, "=", ";", FALSE, FALSE, FALSE, TRUE>> }           \* bare expression terminated by ";"

(* chains: operands with optional postfix, operators of every level *)
Wrap == Py(<<"lam", "wrap", <<"k", <<"none">>>>>>)            \* `lambda v_: [v_]`
Truth == Py(<<"fn", "bool">>)                                 \* `bool`
Ops == {"//", "/?", "<<", ">>", "|", "|>", "where"}
Operand(op, x) == IF op = "|>" THEN Wrap ELSE IF op = "where" THEN Truth ELSE x   \* right operand of |> / where is Python
ChainAtoms == {A1, B1, Cm, Star(A1), Opt(B1), Plus(Ref("R"))}

VARIABLES part, rec, sp, ch, done
vars == <<part, rec, sp, ch, done>>

Init ==
    /\ done = FALSE
    /\ \/ /\ part = "spell" /\ rec \in Recipes /\ sp \in Spellings /\ ch = <<>>
          /\ (Tier = "quick" => (rec[1] <= 5 \/ sp[2] = 1 \/ (rec[1] = 7 /\ sp[2] = 0)))
       \/ /\ part = "chain" /\ rec = <<0>> /\ sp = <<0, 0, "=", "nl", FALSE, FALSE, FALSE, FALSE>>
          /\ \E o1 \in Ops, o2 \in Ops, x1 \in ChainAtoms, x2 \in {A1, Cm}, x3 \in {B1, Cm, Opt(A1)} :
                ch = <<x1, o1, Operand(o1, x2), o2, Operand(o2, x3)>>
       \/ /\ part = "chain" /\ rec = <<0>> /\ sp = <<0, 0, "=", "nl", FALSE, FALSE, FALSE, FALSE>>
          /\ \E o1 \in Ops, o2 \in Ops, o3 \in Ops, x1 \in {A1, Star(B1)} :
                /\ (Tier = "quick" => (o1 # o2 /\ o2 # o3))
                /\ ch = <<x1, o1, Operand(o1, Cm), o2, Operand(o2, A1), o3, Operand(o3, B1)>>

Expr == IF part = "spell" THEN Shape(rec) ELSE Group(ch)

\* besides the expression under test: a class (fields, a let field), a let expression, a parameterised rule and its call -
\* every place where a definition sign ( = : => ) is written
G == [rules |-> [start |-> Rule(Expr), R |-> Rule(Ch2(Str(<<b, a>>), B1)),
                 K |-> Class(<<Field("x", A1), LetF("m", Opt(B1)), Field("y", Cm)>>),
                 L |-> Rule(Let("q", A1, Seq2(B1, PyVar("q")))),
                 \* (a parameter named like a constructor that its own body does not use: it shadows nothing elsewhere)
                 T |-> RuleP(<<"Sep">>, Seq2(Ref("Sep"), Opt(Ref("Sep")))),
                 U |-> Rule(Call("T", <<Pos(A1)>>)),
                 \* ... and a later statement that uses that constructor (or its operator spelling)
                 V |-> Rule(SepPlain(A1, Cm))],
      ign |-> <<>>, start |-> "start"]

Texts == TextSeqUpTo(<<a, b, comma>>, IF Tier = "quick" THEN 4 ELSE 5)

Cfg == IF part = "spell"
       THEN [prop |-> "C19", part |-> part,
             style |-> [variant |-> sp[1], seed |-> sp[2], definer |-> sp[3], sep |-> IF sp[4] = "nl" THEN "\n" ELSE ";",
                        comments |-> sp[5], parens |-> sp[6], break_ops |-> sp[7], bare_start |-> sp[8]]]
       ELSE [prop |-> "C19", part |-> part, chain |-> ch]

Step == /\ ~done
        /\ done' = TRUE
        /\ UNCHANGED <<part, rec, sp, ch>>
        /\ EmitCase(G, Cfg, IF part = "spell" THEN <<"start", "K", "L", "U", "V">> ELSE <<"start">>, Texts)

Next == Step

\* left associativity of every binary row: a op b op c groups as (a op b) op c
LawLeftAssoc ==
    \A o \in Ops : Group(<<A1, o, Operand(o, B1), o, Operand(o, Cm)>>)
                     = MkBin(o, MkBin(o, A1, Operand(o, B1)), Operand(o, Cm))
\* tighter rows first:  a | b >> c // d  =  a | (b >> (c // d))
LawLevels ==
    Group(<<A1, "|", B1, ">>", Cm, "//", A1>>) = Ch2(A1, Right(B1, SepPlain(Cm, A1)))
=============================================================================
