"""tools/seed_prompt.py <ID> - the prompt given to a fresh sub-agent that seeds two defects for property <ID>
(worktree /tmp/wt/<ID>, deliverables in /tmp/wt/out-<ID>/; it sees the property text and one-line descriptions of the
changes already seeded for that property, nothing else from /verif)."""
import sys, json, glob
pid=sys.argv[1]
props={json.loads(l)['id']: json.loads(l) for l in open('/verif/properties.jsonl') if l.strip()}
P=props[pid]
prop='Property %s: %s\n\nStatement: %s\n\nQuantified over: %s\n' % (pid, P['title'], P['statement'], (P.get('quantifier') or {}).get('text', ''))
prev=[]
for p in sorted(glob.glob('/verif/seeded/%s-*/meta.json'%pid)):
    m=json.load(open(p)); prev.append('- '+m.get('what','')[:400])
base=open('/tmp/wt/prompt-%s.txt'%pid).read() if False else None
print(f"""You are helping test a verification framework by writing realistic *seeded defects* for the Python project jvs/sourcer (a PEG parser generator: a grammar description is compiled into a Python module of memoized generator-based parse functions).

You work ONLY inside the git worktree /tmp/wt/{pid} (a checkout of the project) and write your deliverables to /tmp/wt/out-{pid}/. Do NOT read or touch /repo or /verif or any other directory under /tmp/wt. The project's package is the directory /tmp/wt/{pid}/sourcer; README.md and docs/ describe the grammar language; tests are in tests/.

Run things with the interpreter /venv/bin/python and ALWAYS from inside the worktree with PYTHONPATH set to it, e.g.:
  cd /tmp/wt/{pid} && PYTHONPATH=/tmp/wt/{pid} timeout 300 /venv/bin/python -m pytest -q -p no:cacheprovider
(the suite has 52 tests and takes a few seconds; always use a `timeout`, some broken parsers loop forever). Check that `import sourcer; print(sourcer.__file__)` prints a path inside /tmp/wt/{pid}.

Here is a semantic property the project is supposed to satisfy:

{prop}
Your task: produce TWO different, independent changes to the project's source (files under sourcer/ - and grammar.txt / generate_parser.py if the property is about them -, NOT the tests) each of which BREAKS this property while (a) the package still imports and compiles grammars, and (b) the existing test suite still passes completely (52 passed). Each change should be small and look like a plausible slip, refactoring or "optimisation" a developer could make. Prefer changes that need something specific to manifest - a particular nesting/combination of constructs, an unusual input, a multi-step sequence of operations, a particular interleaving, two cooperating sites that each look fine alone, a rarely used option or entry point - NOT ones that ordinary use would expose at once.

Other people have ALREADY seeded the following changes for this property; yours must be of a different kind and in a different place (do not re-do these or close variants of them):
{chr(10).join(prev) if prev else '- (none yet)'}

For each change i in (1, 2) deliver in /tmp/wt/out-{pid}/:
  - patch{{i}}.diff : the change as a unified diff produced by `git diff` inside the worktree (relative to the checked-out HEAD, applying cleanly with `git apply` to a fresh checkout);
  - demo{{i}}.py : a small self-contained Python program (run as `PYTHONPATH=<checkout> /venv/bin/python demo{{i}}.py`) that exits 0 on the unmodified project and exits non-zero (assertion failure) with the change applied, demonstrating the property violation through the public API (sourcer.Grammar(...), module.parse, etc.);
  - meta{{i}}.json : {{"property": "{pid}", "what": "<one sentence: what was changed>", "needs": "<what it needs in order to manifest>", "files": [...]}}.
Work on change 1, save its diff, then `git checkout -- .` in the worktree before starting change 2 (the two patches must be independent). Verify for each: tests pass with the change; demo fails with the change and passes without it. Leave the worktree clean (git checkout -- .) when done. Finally reply with a short summary of the two changes.""")
