"""C09 - reported error locations point at a real, consistent input location."""
import engine
import tlc
from common import MachineryFailure

ALPH = ''.join(chr(c) for c in range(33, 127) if chr(c) not in '.^\\ ')   # 90 distinct printable characters
PREF = 5


EXOTIC = ['\r', '\x0b', '\x0c', '\x1c', '\x1d', '\x1e', '\x85', '\u2028', '\u2029']


def variant_text(text, sc, kind):
    """Other characters, same shape: only "\n" is a line break, so index/line/column expectations do not change.
    exotic: a character that str.splitlines() (but not the property) treats as a line boundary, before the error;
    blanks: everything from the error index to the end of the text is blank; bom: the text starts with U+FEFF."""
    S = sc['P'] * (PREF + 1)
    pos = sc['index']
    if kind == 'exotic':
        if sc['col'] < 3 or sc['atend']:
            return None
        k = S + (sc['col'] - 1) // 2
        return text[:k] + EXOTIC[(sc['L'] + sc['col']) % len(EXOTIC)] + text[k + 1:]
    if kind == 'tab':
        # a tab before the error on the same line is one character like any other
        if sc['col'] < 3 or sc['atend']:
            return None
        k = S + (sc['col'] - 1) // 2
        return text[:k] + '\t' + text[k + 1:]
    if kind == 'blanks':
        if not sc['last'] or sc['atend']:
            return None
        return text[:pos] + ' ' * (len(text) - pos)
    if kind == 'bom':
        # U+FEFF as the first character is a character like any other: it counts in index and column
        if pos < 1 or not text or text[0] == '\n' or sc['atend']:
            return None
        return '\ufeff' + text[1:]
    return None


def make_text(P, L, last):
    return ''.join(make_chars(P, L, last))


def make_chars(P, L, last):
    chars = []
    for _ in range(P):
        for _ in range(PREF):
            chars.append(ALPH[len(chars) % len(ALPH)])
        chars.append('\n')
    for _ in range(L):
        chars.append(ALPH[len(chars) % len(ALPH)])
    if not last:
        chars.append('\n')
        for _ in range(3):
            chars.append(ALPH[len(chars) % len(ALPH)])
    return chars


def excerpt_worker(case):
    """All sub-cases with the same error offset N share three grammars."""
    import sourcer
    N = case['N']
    out = []
    g_err = sourcer.Grammar('start = /(?s).{%d}/ >> Fail()\n' % N)
    g_part = sourcer.Grammar('start = /(?s).{%d}/\n' % N)
    g_bytes = sourcer.Grammar('start = b/(?s).{%d}/ >> Fail()\n' % N)
    text = None
    for sc in case['subs']:
        # the previous text is released before the next one is built: a later text of the same length (the
        # sub-cases are ordered by length) tends to live at the same address but has another line layout -
        # positions must not depend on what was parsed before
        # (the characters are prepared first, so that nothing is allocated between releasing the old text and
        # creating the new one; and every sub-case ends by parsing its plain text once more, so that the plain text
        # is what each module saw last)
        chars = make_chars(sc['P'], sc['L'], sc['last'])
        del text
        text = ''.join(chars)
        del chars
        res = {}
        runs = [('ParseError', g_err, text), ('PartialParseError', g_part, text), ('bytes', g_bytes, text.encode('ascii'))]
        if (sc['L'] * 7 + sc['col']) % 5 == 0:
            for vk in ('exotic', 'blanks', 'bom', 'tab'):
                vt = variant_text(text, sc, vk)
                if vt is not None:
                    runs.append(('ParseError/' + vk, g_err, vt))
                    runs.append(('PartialParseError/' + vk, g_part, vt))
        for kind, g, t in runs:
            if kind == 'PartialParseError' and sc['atend']:
                continue
            try:
                g.parse(t)
                res[kind] = ['returned']
            except g.PartialParseError as e:
                p = e.last_position
                res[kind] = ['PartialParseError', p.index, p.line, p.column, str(e)]
            except g.ParseError as e:
                p = e.position
                res[kind] = ['ParseError', p.index, p.line, p.column, str(e)]
            except BaseException as e:  # noqa
                res[kind] = ['exc', type(e).__name__, str(e)[:200]]
        if len(runs) > 3:
            for g in (g_err, g_part):
                try:
                    g.parse(text)
                except BaseException:  # noqa
                    pass
        del runs
        out.append(res)
    return {'id': case['id'], 'desc': None, 'build': ['ok'], 'obs': out}


engine.register('excerpt_worker', excerpt_worker)


def caret_check(msg, text, pos, header_lines):
    """The excerpt occupies one line, followed by the caret line; the character
    above the caret (with its neighbours) is text[pos]."""
    lines = msg.split('\n')
    if len(lines) < header_lines + 2:
        return 'message too short: %r' % msg[:200]
    ex, car = lines[header_lines], lines[header_lines + 1]
    if car.strip() != '^' or not car.endswith('^'):
        return 'the line after the excerpt is not a caret line (excerpt spills over a line break?): %r / %r' % (ex[-60:], car[:60])
    k = len(car) - 1
    if k >= len(ex):
        return 'caret beyond the excerpt'
    if ex[k] != text[pos]:
        return 'caret under %r, but text[index] is %r' % (ex[k], text[pos])
    # neighbours (when displayed and on the same line of the text)
    if k + 1 < len(ex) and pos + 1 < len(text) and text[pos + 1] != '\n' and not ex[k + 1:].startswith(' ...'):
        if ex[k + 1] != text[pos + 1]:
            return 'character after the caret position does not match the text'
    if k > 0 and pos > 0 and text[pos - 1] != '\n' and not (k <= 4 and ex.startswith('... ')):
        if ex[k - 1] != text[pos - 1]:
            return 'character before the caret position does not match the text'
    return None


def run(chk):
    chk.rule = ('cases = (lines before, line length L, error column, last line or not) x {ParseError, PartialParseError, '
                'bytes input}; TLC (MC_C09) enumerates the space (quick: every column for the line lengths around the '
                'four regime boundaries, sampled columns elsewhere, L <= 150; thorough: full triangle L <= 420), checks '
                'the transcribed excerpt code against the acceptance relation in every state and emits the expected '
                'index/line/column; the harness builds a text of that shape, makes a grammar fail or stop exactly at the '
                'offset and checks position record and message; non-trivial = error not at offset 0 of a one-line text; '
                'distinct by (shape, kind)')
    chk.assumptions += ['ExcerptVM.tla transcribes _extract_excerpt (four regimes); Report.tla defines line/column',
                        'the caret target is identified by the character above the caret and its two neighbours in a '
                        'text whose characters repeat with period 90']
    cases = []
    r = tlc.run('MC_C09', 'MC_C09_' + chk.tier, on_json=cases.append, timeout_s=3000)
    chk.add_tlc(r, 'MC_C09')
    if not r.ok or not cases:
        raise MachineryFailure('MC_C09 did not complete')
    byN = {}
    for c in cases:
        byN.setdefault(c['index'], []).append(c)
    def total(sc):
        return sc['P'] * (PREF + 1) + sc['L'] + (0 if sc['last'] else 4)
    for subs in byN.values():
        subs.sort(key=lambda sc: (total(sc), sc['P'], sc['last']))
    wcases = [{'id': i, 'N': n, 'subs': subs} for i, (n, subs) in enumerate(sorted(byN.items()))]
    recs = engine.run_real(wcases, fn='excerpt_worker', batch=2)
    regimes = {}
    for wc in wcases:
        rec = recs[wc['id']]
        if rec['build'][0] != 'ok':
            raise MachineryFailure('excerpt worker: %r' % (rec['build'],))
        for sc, res in zip(wc['subs'], rec['obs']):
            text = make_text(sc['P'], sc['L'], sc['last'])
            pos = sc['index']
            regimes[sc['regime']] = regimes.get(sc['regime'], 0) + 1
            for kind, o in sorted(res.items(), key=lambda kv: '/' in kv[0]):
                chk.traces += 1
                chk.count([sc['P'], sc['L'], sc['col'], sc['last'], kind], not (pos == 0 and sc['P'] == 0))
                where = '%s at offset %d (lines before %d, line length %d, column %d, last line %s)' % (
                    kind, pos, sc['P'], sc['L'], sc['col'], sc['last'])
                want_cls = 'PartialParseError' if kind.startswith('PartialParseError') else 'ParseError'
                if '/' in kind:
                    text = variant_text(make_text(sc['P'], sc['L'], sc['last']), sc, kind.split('/')[1])
                why = None
                if o[0] != want_cls:
                    why = 'expected %s, observed %s' % (want_cls, o[:3])
                elif o[1] != pos:
                    why = 'index: expected %d, observed %r' % (pos, o[1])
                elif sc['atend']:
                    if o[2] is not None or o[3] is not None:
                        why = 'at end of input line and column must be None, observed (%r, %r)' % (o[2], o[3])
                elif kind == 'bytes' and (o[2], o[3]) != (1, pos + 1):
                    why = 'bytes input is a single line: expected (1, %d), observed (%r, %r)' % (pos + 1, o[2], o[3])
                elif kind != 'bytes' and (o[2], o[3]) != (sc['line'], sc['column']):
                    why = 'line/column: expected (%d, %d), observed (%r, %r)' % (sc['line'], sc['column'], o[2], o[3])
                elif kind == 'bytes':
                    first = o[4].split('Failed to parse')[0]
                    if '^' in first.replace(repr(text.encode()[max(0, pos - 1):pos + 2]), ''):
                        why = 'bytes input: caret present'
                    elif first.count('\n') > 2:
                        why = 'bytes input: excerpt not on a single line: %r' % first[:120]
                else:
                    why = caret_check(o[4], text, pos, 1)
                if len(chk.samples) < 4 and sc['regime'] in (2, 3, 4) and kind == 'ParseError' and len(chk.samples) < sc['regime']:
                    chk.sample({'shape': {k: sc[k] for k in ('P', 'L', 'col', 'last', 'regime')},
                                'expected': {'index': pos, 'line': sc['line'], 'column': sc['column']},
                                'message_head': o[4][:260] if len(o) > 4 else o})
                if why:
                    chk.violation('%s | %s' % (why, where),
                                  {'shape': sc, 'kind': kind, 'observed': o, 'why': why,
                                   'replay_cmd': 'see harness/checks/c09.py make_text(P, L, last)'})
    chk.notes['cases_per_regime'] = regimes
    chk.exhaustive = True
