"""C14 - parsed objects are values: equality, hashing, copying and repr agree."""
import sys

import engine
import objcheck
import tlc
from common import MachineryFailure


def is_po(o):
    return hasattr(o, '_fields') and hasattr(o, '_metadata')


def compound_ids(o, acc=None):
    """ids of all compound nodes (objects, lists, dicts; not tuples of leaves only) reachable from o."""
    acc = set() if acc is None else acc
    stack = [o]
    while stack:
        x = stack.pop()
        if is_po(x):
            if id(x) in acc:
                continue
            acc.add(id(x))
            stack.extend(getattr(x, f) for f in type(x)._fields)
        elif isinstance(x, list):
            acc.add(id(x))
            stack.extend(x)
        elif isinstance(x, dict):
            acc.add(id(x))
            stack.extend(x.values())
        elif isinstance(x, tuple):
            stack.extend(x)
    return acc


def spans(mod, o):
    return [getattr(x._metadata, 'position_info', None) for x in mod.visit(o)]


def value_worker(case):
    import copy
    import pickle
    mod = objcheck.module()
    trees = case['trees']
    objs, twins = [], []
    for t in trees:
        a = objcheck.Builder(mod).build(t, [])
        b = objcheck.Builder(mod, reverse_dicts=True).build(t, [])
        n = 0
        for o in mod.visit(a):
            n += 1
            o._metadata.position_info = ('span', n)      # metadata must be irrelevant for == and hash
        objs.append(a)
        twins.append(b)
    out = {'eq': [], 'ops': []}
    # pairwise ==, !=, hash over the chunk (first against all, to keep it quadratic-free for big chunks)
    m = len(objs)
    for i in range(m):
        row = []
        for j in range(m):
            if (i + j) % 3 and abs(i - j) > 6:
                row.append(None)
                continue
            try:
                e1 = bool(objs[i] == twins[j])
                e2 = bool(twins[j] == objs[i])
                ne = bool(objs[i] != twins[j])
                h = None
                if e1 and is_po(objs[i]) and is_po(twins[j]):
                    h = hash(objs[i]) == hash(twins[j])
                row.append([e1, e2, ne, h])
            except BaseException as e:  # noqa
                row.append(['exc', type(e).__name__, str(e)[:100]])
        out['eq'].append(row)
    for t, a in zip(trees, objs):
        ops = {}
        try:
            if is_po(a):
                d = a._asdict()
                ops['asdict'] = [list(d.keys()) == list(type(a)._fields),
                                 all(d[f] is getattr(a, f) for f in type(a)._fields)]
                if type(a)._fields:
                    f0 = type(a)._fields[0]
                    before = objcheck.expand(a)
                    r = a._replace(**{f0: 'NEW'})
                    ops['replace'] = [type(r) is type(a) and r is not a,
                                      getattr(r, f0) == 'NEW',
                                      all(getattr(r, f) is getattr(a, f) for f in type(a)._fields[1:]),
                                      objcheck.expand(a) == before,
                                      getattr(r._metadata, 'position_info', None) == a._metadata.position_info]
                    # an object derived from one that was hashed before is a value like any other: equal to a freshly
                    # constructed object with the same fields, and then with the same hash
                    try:
                        hash(a)
                        fresh = type(a)(*(['NEW'] + [getattr(a, f) for f in type(a)._fields[1:]]))
                        r2 = a._replace(**{f0: 'NEW'})
                        ops['derived_hash'] = [bool(r2 == fresh), hash(r2) == hash(fresh), hash(r) == hash(fresh)]
                    except TypeError:
                        pass                               # unhashable field values
                    fl = type(a)._fields[-1]
                    rl = a._replace(**{fl: 'LAST'})
                    ops['replace_last'] = [getattr(rl, fl) == 'LAST', list(rl._asdict().keys()) == list(type(a)._fields)]
                    # the copy has metadata of its own: annotating it does not show on the original
                    r._metadata.verif_note = 'copy'
                    ops['replace_metadata_is_a_copy'] = [r._metadata is not a._metadata,
                                                         getattr(a._metadata, 'verif_note', None) is None]
                    z = mod.Z()
                    ops['fresh_object_has_no_position'] = [getattr(z._metadata, 'position_info', None) is None,
                                                           not z._metadata]
                    rn = a._replace(**{f0: None})          # None is a value like any other
                    r0 = a._replace(**{f0: 0})
                    ops['replace_none'] = [getattr(rn, f0) is None, getattr(r0, f0) == 0 and getattr(r0, f0) is not None,
                                           objcheck.expand(a) == before]
                try:
                    ops['hash'] = [isinstance(hash(a), int), hash(a) == hash(a)]
                except BaseException as e:  # noqa
                    ops['hash'] = ['exc', type(e).__name__, str(e)[:100]]
            c = copy.deepcopy(a)
            ops['deepcopy'] = [bool(c == a), objcheck.expand(c) == objcheck.expand(a),
                               not (compound_ids(c) & compound_ids(a)), spans(mod, c) == spans(mod, a)]
            p = pickle.loads(pickle.dumps(a))
            ops['pickle'] = [bool(p == a), objcheck.expand(p) == objcheck.expand(a),
                             not (compound_ids(p) & compound_ids(a)), spans(mod, p) == spans(mod, a)]
            ev = eval(repr(a), dict(mod.__dict__))
            ops['repr'] = [bool(ev == a), objcheck.expand(ev) == objcheck.expand(a)]
        except BaseException as e:  # noqa
            ops['exc'] = [type(e).__name__, str(e)[:150]]
        out['ops'].append(ops)
    # objects obtained from parse carry real position metadata
    parsed = {}
    try:
        o = mod.parse('aa')
        c = copy.deepcopy(o)
        p = pickle.loads(pickle.dumps(o))
        r = o._replace(l='q')
        parsed = {'deepcopy': [c == o, c._metadata.position_info == o._metadata.position_info, c is not o],
                  'pickle': [p == o, p._metadata.position_info == o._metadata.position_info],
                  'replace': [r._metadata.position_info == o._metadata.position_info, o.l == 'a', r.l == 'q'],
                  'repr': [eval(repr(o), dict(mod.__dict__)) == o],
                  'info': [o._metadata.position_info.start.index, o._metadata.position_info.end.index]}
    except BaseException as e:  # noqa
        parsed = {'exc': [type(e).__name__, str(e)[:150]]}
    # the built-in node classes of operator tables (Infix / Prefix / Postfix) are values like any class instance
    try:
        import sourcer
        gops = ('grammar vgobjs_ops\nstart = E\nE = N between {\n    prefix: "-"\n    postfix: "!"\n    left: "+"\n}\n'
                'class N {\n    d: /[0-9]/\n}\n')
        om = sourcer.Grammar(gops)
        t = om.parse('-1!+2')
        nodes = [n for n in om.visit(t)]
        kinds = sorted({type(n).__name__ for n in nodes})
        res = []
        for n in nodes:
            d = n._asdict()
            res.append(list(d) == list(type(n)._fields) and type(n)(**d) == n and n._replace() == n
                       and n._replace(**d) == n and copy.deepcopy(n) == n and pickle.loads(pickle.dumps(n)) == n
                       and eval(repr(n), dict(om.__dict__)) == n and hash(n._replace()) == hash(n))
        parsed['operator_nodes'] = [kinds == ['Infix', 'N', 'Postfix', 'Prefix']] + res
        # the same description compiled again under its name: the objects of the new module are values, too
        om2 = sourcer.Grammar(gops)
        t2 = om2.parse('-1!+2')
        parsed['recompiled'] = [pickle.loads(pickle.dumps(t2)) == t2, copy.deepcopy(t2) == t2,
                                eval(repr(t2), dict(om2.__dict__)) == t2, type(t2).__module__ == 'vgobjs_ops']
    except BaseException as e:  # noqa
        parsed['operator_nodes_exc'] = [False, type(e).__name__, str(e)[:150]]
    finally:
        sys.modules.pop('vgobjs_ops', None)
    out['parsed'] = parsed
    return {'id': case['id'], 'desc': None, 'build': ['ok'], 'obs': out}


engine.register('value_worker', value_worker)


def strip_n(v):
    if isinstance(v, list):
        if v and v[0] == 'leaf':
            return v[:2]
        return [strip_n(x) for x in v]
    return v


def run(chk):
    chk.rule = ('cases = trees (and pairs of trees) of parsed objects; TLC (MC_C15 in value mode) enumerates the C15 family '
                'and emits the plain value each tree denotes (Objs!Expand: class and fields, sharing/identity/metadata '
                'removed); the harness builds every tree twice (independent objects, one copy with metadata), compares '
                'real == / != / hash on pairs with equality of the emitted values, and checks _asdict, _replace, '
                'copy.deepcopy, pickle round trip (named grammar) and eval(repr) on every tree, plus on objects returned by '
                'parse; non-trivial = pair of structurally equal but distinct trees, or tree with a container field; '
                'distinct by tree pair / (tree, operation)')
    chk.assumptions += ['Objs!Eq (equality of expanded values) is the stated meaning of ==']
    trees = []
    r = tlc.run('MC_C15', 'MC_C15_value_' + chk.tier, on_json=trees.append, timeout_s=3000)
    chk.add_tlc(r, 'MC_C15(value)')
    if not r.ok or not trees:
        raise MachineryFailure('MC_C15 did not complete')
    # group similar trees so that many equal pairs occur inside a chunk
    trees.sort(key=lambda x: (str(strip_n(x['value'])), str(x['t'])))
    step = 30
    cases = [{'id': i, 'trees': [x['t'] for x in trees[i:i + step]]} for i in range(0, len(trees), step)]
    recs = engine.run_real(cases, fn='value_worker', batch=1)
    for c in cases:
        rec = recs[c['id']]
        if rec['build'][0] != 'ok':
            raise MachineryFailure('value worker: %r' % (rec['build'],))
        part = trees[c['id']:c['id'] + step]
        o = rec['obs']
        vals = [strip_n(x['value']) for x in part]
        for i, row in enumerate(o['eq']):
            for j, cell in enumerate(row):
                if cell is None:
                    continue
                want = vals[i] == vals[j]
                chk.traces += 1
                chk.count(['eq', part[i]['t'], part[j]['t']], want and part[i]['t'] != part[j]['t'] or i == j)
                where = '%s vs %s' % (part[i]['t'], part[j]['t'])
                if cell[0] == 'exc':
                    chk.violation('== / hash raised %s | %s' % (cell[1:], where), {'a': part[i]['t'], 'b': part[j]['t']})
                elif cell[0] != want or cell[1] != want or cell[2] == want:
                    chk.violation('== is %s / %s, != is %s, but the trees are %s | %s'
                                  % (cell[0], cell[1], cell[2], 'equal' if want else 'different', where),
                                  {'a': part[i]['t'], 'b': part[j]['t'], 'observed': cell})
                elif cell[3] is False:
                    chk.violation('equal objects with different hashes | %s' % where, {'a': part[i]['t'], 'b': part[j]['t']})
        for x, ops in zip(part, o['ops']):
            for name, res in ops.items():
                chk.traces += 1
                chk.count([name, x['t']], True)
                if name == 'exc' or (res and res[0] == 'exc') or not all(res):
                    chk.violation('%s failed on %s: %s' % (name, x['t'], res), {'tree': x['t'], 'op': name, 'observed': res})
        if len(chk.samples) < 2:
            chk.sample({'tree': part[0]['t'], 'value': vals[0], 'operations': o['ops'][0], 'from_parse': o['parsed']})
        for name, res in o['parsed'].items():
            if name == 'info':
                continue
            if name == 'exc' or not all(res):
                chk.violation('%s failed on an object returned by parse: %s' % (name, res), {'op': name, 'observed': res})
