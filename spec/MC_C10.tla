------------------------------- MODULE MC_C10 -------------------------------
(***************************************************************************)
(* C10 - class instances carry the exact span of input they were parsed    *)
(* from.  Family: class grammars (nested, repeated, optional, inside an    *)
(* operator table and a template, reused through memoisation               *)
(* [Expect(A), A], built by alternatives that are then abandoned) with     *)
(* and without ignore, on single- and multi-line inputs, from every        *)
(* offset.  PegSem records raw spans; Report!Finalize converts them to     *)
(* (index, line, column) triples exactly as the property words it.         *)
(* Laws: nesting and sibling order of spans.                               *)
(***************************************************************************)
EXTENDS Fam, Report

CONSTANTS Tier

sp == 32
plus == 43
lpar == 40
rpar == 41

WordRx == Rgx(RxPlus(Cls(<<a, b>>)))

Rules1 ==
    [ start |-> Rule(Star(Ref("Item"))),
      Item  |-> Rule(<<"choice", <<Ref("Pair"), Ref("Group"), Ref("Mark"), Ref("Word")>>>>),
      \* a class without any field (only pass / let members) still consumes input and has a span
      Mark  |-> Class(<<PassM(Str(<<plus>>)), LetF("more", Opt(Str(<<plus>>)))>>),
      Word  |-> Class(<<Field("w", WordRx)>>),
      \* tried first and abandoned unless a "+" follows: builds instances that are dropped
      Pair  |-> Class(<<Field("l", Ref("Word")), Field("op", Str(<<plus>>)), Field("r", Ref("Word"))>>),
      Group |-> Class(<<PassM(Str(<<lpar>>)), Field("items", Star(Ref("Item"))), PassM(Str(<<rpar>>))>>) ]

Rules2 ==
    [ start |-> Rule(Seq2(Expect(Ref("A")), Ref("A"))),          \* memoised reuse: both are the same instance
      A     |-> Class(<<Field("x", Opt(Ref("B"))), Field("y", Star(Ref("C")))>>),
      B     |-> Class(<<Field("v", Str(<<b>>))>>),
      C     |-> Class(<<Field("v", Str(<<a>>)), Field("t", Opt(Ref("B")))>>) ]

Rules3 ==
    [ start |-> Rule(Ref("E")),
      \* (the bracketed form: the table's result is then an instance that matched LESS than the table did)
      E     |-> Rule(<<"optable", Ref("Word"), << <<"mixfix", <<Left(Right(Str(<<lpar>>), Ref("E")), Str(<<rpar>>))>>>>,
                                                   <<"left", <<Str(<<plus>>)>>>> >> >>),
      Word  |-> Class(<<Field("w", WordRx)>>),
      Box   |-> ClassP(<<"p">>, <<Field("it", Ref("p"))>>),
      T     |-> Rule(Star(Call("Box", <<Pos(Ref("Word"))>>))) ]

(* an instance captured inside lookahead lies beyond the end of the match (and of what parse consumed) *)
Rules4 ==
    [ start |-> Rule(Ref("H")),
      H     |-> Class(<<Field("w", Ref("Word")),
                        Field("next", Opt(Expect(Right(Rgx(RxPlus(Cls(<<sp, NL>>))), Ref("Word")))))>>),
      Word  |-> Class(<<Field("w", WordRx)>>) ]

(* a class whose members move backwards: the instance ends before it starts (no span is judged, nothing may break) *)
Rules5 ==
    [ start |-> Rule(Star(Ref("Tok"))),
      Tok   |-> Class(<<Field("w", WordRx), Field("mark", Opt(Ref("Prev"))), Field("rest", Opt(Rgx(Cls(<<a, b>>))))>>),
      Prev  |-> Class(<<PassM(Back(1))>>) ]

(* instances that are reachable only through a dict built by inline Python:  (Ent /? ";") |> `dict`  *)
Rules6 ==
    [ start |-> Rule(Apply(SepTrailer(Ref("Ent"), Str(<<59>>)), Py(<<"fn", "dict">>))),
      Ent   |-> Rule(Seq2(Left(WordRx, Str(<<61>>)), Ref("Word"))),
      Word  |-> Class(<<Field("w", WordRx)>>) ]

(* the start rule is itself a class: its span begins where the match began - before the leading ignorable text *)
Rules7 ==
    [ start |-> Class(<<Field("w", WordRx), Field("rest", Star(Ref("Word")))>>),
      Word  |-> Class(<<Field("w", WordRx)>>) ]

CR == 13          \* a carriage return is ignorable text here, but it is NOT a line break (only NL is)
Ign == <<Rgx(RxPlus(Cls(<<sp, NL, CR>>)))>>

Grammar(i) ==
    CASE i = 1 -> [rules |-> Rules1, ign |-> <<>>, start |-> "start"]
      [] i = 2 -> [rules |-> Rules1, ign |-> Ign, start |-> "start"]
      [] i = 3 -> [rules |-> Rules2, ign |-> <<>>, start |-> "start"]
      [] i = 4 -> [rules |-> Rules2, ign |-> Ign, start |-> "start"]
      [] i = 5 -> [rules |-> Rules3, ign |-> Ign, start |-> "start"]
      [] i = 6 -> [rules |-> Rules4, ign |-> <<>>, start |-> "start"]
      [] i = 7 -> [rules |-> Rules5, ign |-> <<>>, start |-> "start"]
      [] i = 8 -> [rules |-> Rules6, ign |-> Ign, start |-> "start"]
      [] i = 9 -> [rules |-> Rules7, ign |-> Ign, start |-> "start"]

Entries(i) == CASE i \in {1, 2} -> <<"start", "Item", "Group">>
                [] i \in {3, 4} -> <<"start", "A">>
                [] i = 5 -> <<"start", "T">>
                [] i = 6 -> <<"start", "H">>
                [] i = 7 -> <<"start", "Tok">>
                [] i = 8 -> <<"start">>
                [] i = 9 -> <<"start", "Word">>

N == IF Tier = "quick" THEN 4 ELSE 5
Texts(i) ==
    CASE i = 1 -> TextSeqUpTo(<<a, plus, lpar, rpar>>, N) \o << <<a, b, plus, a, lpar, b, rpar>> >>
      [] i = 2 -> TextSeqUpTo(<<a, plus, CR, NL>>, N)
                  \o << <<a, NL, plus, NL, NL, b, sp, lpar, NL, a, rpar, NL>>, <<sp, a, sp, plus, sp, b, sp>>,
                        <<a, CR, NL, b, plus, a, CR, NL, a, b>>, <<a, CR, b, CR, CR, a, NL, b>>,
                        <<lpar, sp, a, NL, sp, b, rpar, sp, a>>,
                        \* U+FEFF is a character like any other (no rule matches it): nothing can be parsed at offset 0
                        <<65279, a, plus, b>>, <<65279, sp, a, NL, b>> >>
      [] i = 3 -> TextSeqUpTo(<<a, b>>, N + 1)
      [] i = 4 -> TextSeqUpTo(<<a, b, sp, NL>>, N) \o << <<b, NL, a, sp, b, NL, a, NL>> >>
      [] i = 5 -> TextSeqUpTo(<<a, plus, sp, NL>>, N)
                  \o << <<a, sp, plus, NL, b, plus, a, b, NL>>, <<lpar, a, rpar>>, <<lpar, sp, a, sp, rpar, sp, plus, sp, b>>,
                        <<lpar, lpar, a, rpar, rpar>>, <<lpar, a, plus, b, rpar, plus, a>>, <<sp, lpar, NL, a, NL, rpar, NL>>,
                        <<a, plus, lpar, b, rpar>>, <<lpar, a>> >>
      [] i = 7 -> TextSeqUpTo(<<a, b, sp>>, N)
      [] i = 9 -> TextSeqUpTo(<<a, sp, NL>>, N + 1) \o << <<sp, NL, a, b, sp, a, NL>>, <<NL, NL, a, sp, sp, b>> >>
      [] i = 8 -> TextSeqUpTo(<<a, 61, 59>>, N + 1)
                  \o << <<a, 61, b, 59, b, 61, a, a>>, <<a, sp, 61, NL, b, sp, 59, NL, b, 61, a, 59, sp>>, <<a, 61, b, 59, a, 61, a>> >>
      [] i = 6 -> TextSeqUpTo(<<a, sp, NL>>, N + 1) \o << <<a, b, NL, NL, b, a, sp, a>>, <<a, sp, NL, sp, b, b, NL>> >>

VARIABLES gi, en, done
vars == <<gi, en, done>>

Init == gi \in 1..9 /\ en \in 1..Len(Entries(gi)) /\ done = FALSE

RunF(G, entry, txt, p) ==
    LET r == EvalEntry(G, entry, txt, p) IN <<entry, txt, p, r.t, Finalize(r.v, txt), r.e, r.far>>

Step == /\ ~done
        /\ done' = TRUE
        /\ UNCHANGED <<gi, en>>
        /\ LET tps == AllPos(Texts(gi), 1, 0) IN
           PrintT(ToJson([g |-> Grammar(gi), cfg |-> [prop |-> "C10", spans |-> TRUE],
                          runs |-> [k \in 1..Len(tps) |-> RunF(Grammar(gi), Entries(gi)[en], tps[k][1], tps[k][2])]]))

Next == Step

(* ---- laws on raw spans ---- *)
RECURSIVE SpansOK(_, _, _)
\* every instance's span lies inside [lo, hi]; fields of an instance are in input order
SpansOK(v, lo, hi) ==
    CASE v[1] = "o" ->
           /\ v[4][1] >= lo /\ v[4][2] <= hi /\ v[4][1] <= v[4][2]
           /\ \A j \in 1..Len(v[3]) : SpansOK(v[3][j][2], v[4][1], v[4][2])
      [] v[1] \in {"l", "tu"} -> \A j \in 1..Len(v[2]) : SpansOK(v[2][j], lo, hi)
      [] v[1] = "I" -> SpansOK(v[2], lo, hi) /\ SpansOK(v[4], lo, hi)
      [] OTHER -> TRUE

LawNesting ==
    (done /\ gi \notin {6, 7}) =>          \* (lookahead aside, as the property says)
    \A j \in 1..Len(Texts(gi)) :
        LET r == EvalEntry(Grammar(gi), Entries(gi)[en], Texts(gi)[j], 0) IN
        r.t = "ok" => SpansOK(r.v, 0, r.e)
=============================================================================
