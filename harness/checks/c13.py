"""C13 - inheritance: overrides are late-bound, super is the parent, parent untouched."""
import engine
import realrun
import render
import tlc
from common import MachineryFailure


def module_desc(mod, name, parent, ig, level):
    rules = mod['rules'] if isinstance(mod['rules'], dict) else {}
    g = {'rules': rules, 'ign': mod.get('ign') or [], 'start': 'start'}
    names = None
    if ig == 'named' and level == 1:
        names = ['Blank', 'Junk']
    elif ig == 'both':
        names = ['Blank%d' % level, 'Junk%d' % level] if level == 1 else None   # base named, derived anonymous
    # with anonymous patterns in several levels they are declared first everywhere (same position in each module)
    return render.grammar(g, name=name, extends=parent, ign_names=names, order=sorted(rules.keys()),
                          ign_first=(ig == 'bothanon'))


def chain_worker(case):
    import sys
    import sourcer
    cid = case['id']
    dotted = case.get('dotted', False)
    prefix = ('vgpkg%d.' % cid if dotted else '') + 'vg13_%d_' % cid

    def name(k, tag=''):
        return '%sL%d%s' % (prefix, k, tag)
    out = []
    mods = {}
    created = []

    def create(desc, nm):
        b = realrun.build(desc)
        created.append(nm)
        return b

    def parse_all(mod, runs, bm=False):
        res = []
        nto = 0
        for r in runs:
            if nto >= 2:
                res.append(['timeout', 'not run: two runs through this module already timed out'])
                continue
            try:
                fn = mod.parse if r[0] in ('start', 'Start') else getattr(mod, r[0]).parse
            except Exception as e:  # noqa
                res.append(['exc', type(e).__name__, 'no entry point %s: %s' % (r[0], str(e)[:80])])
                continue
            res.append(realrun.call_parse(mod, fn, realrun.to_text(r[1]), r[2], True, per_case_timeout=3.0))
            if res[-1][0] == 'timeout':
                nto += 1
        return res
    try:
        chain = case['chain']
        for k in range(1, len(chain) + 1):
            desc = module_desc(chain[k - 1], name(k), name(k - 1) if k > 1 else None, case['ig'], k)
            b = create(desc, name(k))
            if b[0] != 'ok':
                out.append(['create', k, desc, list(b)])
                break
            mods[k] = b[1]
            out.append(['create', k, desc, ['ok']])
            # parse through every module created so far (the base before and after its descendants exist)
            for j in range(1, k + 1):
                out.append(['parse', 'after creating level %d' % k, j, parse_all(mods[j], case['runs'][j - 1])])
        # history: the base is created again under the same name with different rules, and extended again
        if len(mods) == len(chain):
            c2 = case['chain2']
            desc = module_desc(c2[0], name(1), None, case['ig'], 1)
            b = create(desc, name(1))
            out.append(['create', 'base again under the same name', desc, list(b[:1]) if b[0] == 'ok' else list(b)])
            if b[0] == 'ok':
                newbase = b[1]
                # the modules that existed before are not altered
                for j in range(1, len(chain) + 1):
                    out.append(['parse', 'after re-creating the base name', j, parse_all(mods[j], case['runs'][j - 1])])
                out.append(['parse2', 'the re-created base', 1, parse_all(newbase, case['runs2'][0])])
                desc = module_desc(c2[1], name(2, 'b'), name(1), case['ig'], 2)
                b = create(desc, name(2, 'b'))
                out.append(['create', 'new extender of the re-created base', desc, list(b[:1]) if b[0] == 'ok' else list(b)])
                if b[0] == 'ok':
                    out.append(['parse2', 'new extender of the re-created base', 2, parse_all(b[1], case['runs2'][1])])
                # the unchanged description of level 2 (same text as before) compiled again: it now extends the NEW base
                desc = module_desc(chain[1], name(2), name(1), case['ig'], 2)
                b = create(desc, name(2))
                out.append(['create', 'level 2 again (unchanged description) on the re-created base', desc,
                            list(b[:1]) if b[0] == 'ok' else list(b)])
                if b[0] == 'ok':
                    out.append(['parse3', 'level 2 compiled again (unchanged description) on the re-created base', 2,
                                parse_all(b[1], case['runs3'])])
    finally:
        for nm in created:
            sys.modules.pop(nm, None)
        if dotted:
            sys.modules.pop('vgpkg%d' % cid, None)
    return {'id': cid, 'desc': None, 'build': ['ok'], 'obs': out}


engine.register('chain_worker', chain_worker)


def unqualify(v):
    """Modules!Flat names class K of level L "K@L"; the real class is called K."""
    if isinstance(v, list):
        if v and v[0] == 'o':
            return ['o', v[1].split('@')[0], [[f, unqualify(x)] for f, x in v[2]]] + v[3:]
        return [unqualify(x) for x in v]
    return v


def defined_at(chain, top, rule):
    rules = chain[top - 1]['rules']
    return isinstance(rules, dict) and rule in rules


def run(chk):
    chk.rule = ('cases = (chain of 2-3 grammar modules, module parsing is started through, entry rule, input) within '
                'creation/use histories; TLC (MC_C13) enumerates per level every rule inherited / overridden / overridden '
                'using super / new, classes overridden by rules, ignore in the base (named, anonymous) and added to by the '
                'derived module, flattens each chain with Modules!Flat and computes the outcome of every entry x text; the '
                'harness creates the modules in order, parses through every module after each creation (so the base is '
                'used before and after its descendants exist), then re-creates the base under the same name with different '
                'rules and extends it again; non-trivial = run that matches or fails beyond the offset; distinct by '
                '(chain, history point, module, entry, input)')
    chk.assumptions += ['Modules!Flat is the stated meaning of extends/super/late binding; FrameLaw (a module depends on '
                        'its ancestors only) is model-checked',
                        'a derived module that declares ignore patterns while no ancestor does is not in the family '
                        '(the property does not say whether inherited literals then skip)']
    cases = []
    r = tlc.run('MC_C13', 'MC_C13_' + chk.tier, on_json=cases.append, timeout_s=3000)
    chk.add_tlc(r, 'MC_C13')
    if not r.ok or not cases:
        raise MachineryFailure('MC_C13 did not complete')
    wcases = []
    for i, c in enumerate(cases):
        runs = [[[x[0], x[1], x[2]] for x in top] for top in c['runs']]
        runs2 = [[[x[0], x[1], x[2]] for x in top] for top in c['runs2']]
        runs3 = [[x[0], x[1], x[2]] for x in c['runs3']]
        wcases.append({'id': i, 'chain': c['chain'], 'chain2': c['chain2'], 'ig': c['ig'], 'runs': runs, 'runs2': runs2, 'runs3': runs3,
                       'dotted': (i % 7 == 3)})
    recs = engine.run_real(wcases, fn='chain_worker', batch=2)
    for c, w in zip(cases, wcases):
        rec = recs[w['id']]
        if rec['build'][0] != 'ok':
            raise MachineryFailure('chain worker: %r' % (rec['build'],))
        descs = {}
        for item in rec['obs']:
            if item[0] == 'create':
                descs[item[1]] = item[2]
                chk.traces += 1
                if item[3][0] != 'ok':
                    chk.count(['create', item[2]], True)
                    chk.violation('Grammar() failed while creating %s: %s | description: %s'
                                  % ('level %s' % item[1] if isinstance(item[1], int) else item[1], item[3][1:],
                                     item[2].replace('\n', ' ; ')[:400]),
                                  {'step': item[1], 'desc': item[2], 'build': item[3], 'dotted': w['dotted']})
                continue
            kind, when, top, obs = item
            if kind == 'parse3':
                exps = c['runs3']
                chain_now = [c['chain2'][0], c['chain'][1]]
            else:
                exps = (c['runs'] if kind == 'parse' else c['runs2'])[top - 1]
                chain_now = c['chain'] if kind == 'parse' else c['chain2']
            for x, o in zip(exps, obs):
                exp = x[3:7]
                exp = [exp[0], unqualify(exp[1]), exp[2], exp[3]]
                # An entry point R of module `top` that `top` merely inherits (B.R.parse with R defined in an
                # ancestor) is observed but not judged: the property speaks of parsing through B, and whether the
                # inherited entry-point object counts as "through B" is not stated (see DESIGN.md).
                if x[0] not in ('start', 'Start') and not defined_at(chain_now, top, x[0]):
                    chk.notes['inherited_entry_points_not_judged'] = chk.notes.get('inherited_entry_points_not_judged', 0) + 1
                    continue
                if exp[0] == 'ill':
                    chk.skipped_ill += 1
                    continue
                chk.count([w['id'], kind, when, top, x[0], x[1]], exp[0] == 'ok' or exp[3] > 0)
                why = engine.judge_run(exp, o, 0)
                if len(chk.samples) < 3 and exp[0] == 'ok' and top > 1 and 'super' in str(c['chain']):
                    chk.sample({'chain': [descs.get(k) for k in sorted(k for k in descs if isinstance(k, int))],
                                'through_level': top, 'when': when, 'entry': x[0], 'text': ''.join(map(chr, x[1])),
                                'spec': exp[:3], 'observed': o[:3]})
                if why:
                    chain_txt = ' || '.join((descs.get(k) or '').replace('\n', ' ; ') for k in sorted(k for k in descs if isinstance(k, int)))
                    chk.violation('%s | through level %d, %s, entry %s, text %r | spec %s | observed %s | chain: %s'
                                  % (why, top, when, x[0], ''.join(map(chr, x[1])), exp, o, chain_txt[:700]),
                                  {'chain': descs, 'top': top, 'when': when, 'run': x[:3], 'expected': exp, 'observed': o,
                                   'why': why, 'dotted': w['dotted']})
