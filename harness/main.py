"""./check <ID> quick|thorough   |   ./check replay <path>"""
import importlib
import json
import os
import sys
import traceback

HERE = os.path.dirname(os.path.abspath(__file__))
sys.path.insert(0, HERE)

import common  # noqa: E402
import engine  # noqa: E402


def main(argv):
    if len(argv) < 2:
        print(__doc__)
        return 2
    if argv[0] == 'replay':
        import replay
        return replay.main(argv[1])
    prop, tier = argv[0].upper(), argv[1]
    tier = os.environ.get('VERIF_TIER', tier)
    if tier not in ('quick', 'thorough'):
        print('tier must be quick or thorough')
        return 2
    os.environ.setdefault('PYTHONHASHSEED', '0')
    try:
        mod = importlib.import_module('checks.' + prop.lower())
    except ImportError as e:
        print('no check for %s: %s' % (prop, e))
        return 2
    chk = common.Check(prop, tier, getattr(mod, 'LEVEL', 'model_checking'))
    try:
        engine.pool(hooks=getattr(mod, 'HOOKS', False))   # fork the workers while this process is still small
        mod.run(chk)
        rc = chk.finish()
    except common.MachineryFailure as e:
        print('MACHINERY-FAILURE property=%s: %s' % (prop, e))
        rc = 2
    except Exception as e:  # noqa
        traceback.print_exc()
        print('MACHINERY-FAILURE property=%s: %r' % (prop, e))
        rc = 2
    finally:
        engine.close_pool()
    return rc


if __name__ == '__main__':
    sys.exit(main(sys.argv[1:]))
