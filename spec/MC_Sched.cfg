CONSTANTS
  NP = 2
  K = 2
INIT Init
NEXT Next
INVARIANT Emitted
CHECK_DEADLOCK FALSE
