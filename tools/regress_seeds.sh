#!/bin/bash
# tools/regress_seeds.sh [PATTERN]  - re-run every archived seeded defect (seeded/<PATTERN>*) against the check(s) named in
# its meta.json (caught_by), on a scratch worktree of /repo (never on /repo itself), and report which are still caught.
pat=${1:-C}
R=${SEED_DIR:-/tmp/seedrepo-reg}
cd /verif
for d in seeded/${pat}*/; do
  id=$(basename $d)
  props=$(python3 -c "
import json,re;m=json.load(open('$d/meta.json'));print(' '.join(dict.fromkeys(re.findall(r'C\d\d', m.get('caught_by','')))))")
  git -C /repo worktree remove --force $R 2>/dev/null; rm -rf $R
  git -C /repo worktree add -q --detach $R HEAD || { echo "$id: cannot create worktree"; continue; }
  if ! git -C $R apply $PWD/$d/patch.diff 2>/dev/null; then echo "$id: PATCH-DOES-NOT-APPLY"; continue; fi
  (cd /tmp && PYTHONPATH=$R timeout 120 /venv/bin/python /verif/$d/demo.py >/dev/null 2>&1); demo=$?
  res=""
  for p in $props; do
    out=$(VERIF_REPO=$R timeout 1500 ./check $p quick 2>&1); rc=$?
    res="$res $p:rc=$rc"
  done
  echo "$id: demo=$demo$res"
done
git -C /repo worktree remove --force $R 2>/dev/null; git -C /repo worktree prune
