"""C20 - user-chosen names cannot collide with generated code."""
import io
import json
import keyword
import os
import shutil
import tokenize

import engine
import pegcheck
import realrun
import render
import tlc
from common import MachineryFailure

TEMPORARIES = ['value1', 'value2', 'item1', 'item2', 'staging1', 'checkpoint1', 'backtrack1', 'func1', 'arg1', 'matcher1',
               'match1', 'end1', 'farthest_pos1', 'farthest_err1', 'has_result1', 'start_pos1', 'saw_separator1',
               'farthest_result1', 'farthest_position1', 'title', 'details', 'excerpt', 'line', 'col']
BUILTINS = ['list', 'len', 'id', 'object', 'dict', 'tuple', 'reversed', 'isinstance', 'hash', 'hasattr', 'getattr',
            'enumerate', 'repr', 'set', 'int', 'str', 'bool', 'type', 'max', 'min', 'slice', 'Exception', 'TypeError',
            'staticmethod', 'super', 'bytes']
CONSTRUCTORS = ['Seq', 'List', 'Left', 'Right', 'Opt', 'Some', 'Sep', 'Choice', 'Expect', 'ExpectNot', 'Skip', 'Longest',
                'Fail', 'Backtrack', 'Let', 'Where', 'Apply', 'Rule', 'Class', 'Call', 'Ref', 'Str', 'Regex', 'Byte',
                'Discard', 'KeywordArg', 'OperatorTable', 'PythonExpression']
# locals and parameters of the runtime's own functions, and the lambda parameter the renderer uses
RUNTIME_LOCALS = ['self', 'cls', 'operand', 'operator', 'prec', 'text', 'pos', 'fullparse', 'node', 'stack', 'memo', 'key', 'gtor', 'result', 'visited', 'callbacks',
                  'field', 'child', 'parent', 'kw', 'other', 'index', 'column', 'message', 'start_pos', 'v_']
# identifiers that merely START with a word of the grammar language
LANGUAGE_PREFIXES = ['letter', 'Nonempty', 'Truely', 'Falsey', 'wherever', 'inward', 'classy', 'passing', 'ignoreme',
                     'requiresx', 'betweenx', 'overridex', 'extendsx', 'grammarx', 'leftx', 'mixfixx', 'infixed', 'superb']
PLAIN = ['fresh', 'Fresh', 'x9', 'CamelCase', 'snake_case', 'ALLCAPS']
# documented API of a generated module (the property excludes these) and words the grammar language itself reserves
API = {'parse', 'Infix', 'Prefix', 'Postfix', 'ParseError', 'PartialParseError', 'InputError', 'ParsedObject', 'ParsingRule',
       'visit', 'traverse', 'transform', 'start', 'Start'}
LANGUAGE_WORDS = {'let', 'in', 'where', 'class', 'between', 'ignore', 'ignored', 'override', 'overrides', 'grammar', 'extends',
                  'requires', 'pass', 'left', 'right', 'infix', 'prefix', 'postfix', 'mixfix', 'True', 'False', 'None',
                  'super'}


def usable(name, taken):
    return (name.isidentifier() and not name.startswith('_') and not keyword.iskeyword(name) and name not in API
            and name not in LANGUAGE_WORDS and name not in taken)


def source_identifiers(src):
    names = set()
    try:
        for tok in tokenize.generate_tokens(io.StringIO(src).readline):
            if tok.type == tokenize.NAME:
                names.add(tok.string)
    except (tokenize.TokenError, IndentationError, SyntaxError):
        pass
    return names


def source_worker(case):
    b = realrun.build(engine.describe(case), include_source=True)
    if b[0] != 'ok':
        return {'id': case['id'], 'desc': None, 'build': list(b), 'obs': []}
    return {'id': case['id'], 'desc': None, 'build': ['ok'], 'obs': [b[1]._source_code]}


engine.register('source_worker', source_worker)


def enumerate_cases(chk, pool, label, dyn=False):
    d = tlc.scratch('pool-')
    path = os.path.join(d, 'pool.ndjson')
    try:
        with open(path, 'w') as f:
            for n in pool:
                f.write(json.dumps({'name': n, 'dyn': dyn}) + '\n')
        return pegcheck.collect(chk, 'MC_C20', 'MC_C20', env={'POOL': path}, timeout_s=3000, label=label)
    finally:
        shutil.rmtree(d, ignore_errors=True)


SPLIT = ('ZW', 'ZB', 'ZC', 'ZI')


def split_worker(case):
    """The renamed grammar as two modules: everything but ZW/ZB/ZC in a base module, those three rules in a module that
    extends it (the names a grammar inherits count like its own)."""
    import sys
    cid = case['id']
    g = case['g']
    base = {'rules': {k: v for k, v in g['rules'].items() if k not in SPLIT}, 'ign': g.get('ign') or [], 'start': 'start'}
    ign_names = (case.get('cfg') or {}).get('ign_names')
    child = {'rules': {k: v for k, v in g['rules'].items() if k in SPLIT}, 'ign': [], 'start': ''}
    a, b = 'vg_c20a_%d' % cid, 'vg_c20b_%d' % cid
    try:
        b1 = realrun.build(render.grammar(base, name=a, ign_names=ign_names))
        if b1[0] != 'ok':
            return {'id': cid, 'desc': render.grammar(base, name=a, ign_names=ign_names), 'build': list(b1), 'obs': []}
        desc = render.grammar(child, name=b, extends=a)
        b2 = realrun.build(desc)
        if b2[0] != 'ok':
            return {'id': cid, 'desc': desc, 'build': list(b2), 'obs': []}
        mod = b2[1]
        obs = []
        for run in case['runs']:
            obs.append(realrun.call_parse(mod, getattr(mod, run[0]).parse, realrun.to_text(run[1]), run[2], True,
                                          per_case_timeout=2.0))
        return {'id': cid, 'desc': render.grammar(base, name=a, ign_names=ign_names) + '\n' + desc, 'build': ['ok'], 'obs': obs}
    finally:
        sys.modules.pop(a, None)
        sys.modules.pop(b, None)


engine.register('split_worker', split_worker)


def tagger(case, run, exp, obs, why):
    cfg = case.get('cfg') or {}
    tag = '%s|%s' % (cfg.get('to'), cfg.get('role'))
    if run is None:
        sig = 'Grammar():%s' % (obs[1] if len(obs) > 1 else obs[0])
    elif obs[0] == 'exc':
        sig = 'parse:%s' % obs[1]
    elif obs[0] == 'timeout':
        sig = 'timeout'
    else:
        sig = 'wrong-result'
    return (tag,), sig


def run(chk):
    chk.rule = ('cases = (base grammar using every naming role, renaming of one identifier to a pool name, entry, input); '
                'pool = look-alikes of generated temporaries + builtins the runtime calls + the built-in constructor names '
                '+ plain names + (second pass) every identifier token of the generated source of the grammar; TLC (MC_C20) '
                'applies the renaming to the abstract grammar, checks LawRenaming and computes the outcome of the renamed '
                'grammar; the harness compiles the renamed description and compares (results equal up to the renaming); '
                'non-trivial = matching run; distinct by (identifier, role, pool name, entry, input)')
    chk.assumptions += ['names excluded by the property: leading underscore, Python keywords, documented API of the generated '
                        'module; additionally the words the grammar language itself reserves are not used as new names',
                        'known findings are identified by (pool name, role, failure signature)']
    taken = {'Item', 'Word', 'Pair', 'key', 'val', 'gap', 'Wrap', 'p', 'tmp', 'Box', 'q', 'it', 'n', 'stars', 'start', 'm', 'xs',
             'Cnt', 'more', 'Zlast', 't', 'Tab', 'Tuse', 'ZW', 'ZB', 'ZC', 'h', 'z', 'Inv', 'ZI', 'Hold', 'hh', 'Junk', 'Til'}
    # every public attribute of the package the translator looks constructors up in (classes, helper functions, submodules)
    import sys
    if realrun.REPO not in sys.path:
        sys.path.insert(0, realrun.REPO)
    import sourcer.expressions as _ex
    package_attrs = sorted(n for n in dir(_ex) if not n.startswith('_'))
    chk.notes['expression_package_attributes'] = len(package_attrs)
    fixed = [n for n in dict.fromkeys(TEMPORARIES + BUILTINS + CONSTRUCTORS + RUNTIME_LOCALS + LANGUAGE_PREFIXES + PLAIN
                                      + package_attrs) if usable(n, taken)]
    if chk.tier == 'quick':
        fixed = fixed[::1]
    cases = enumerate_cases(chk, fixed, 'MC_C20(fixed pool)')
    chk.notes['fixed_pool'] = len(fixed)
    # dynamic pool: identifiers of the generated source
    probe = next(c for c in cases if (c.get('cfg') or {}).get('to') == 'fresh')
    rec = engine.run_real([dict(probe, id=0)], fn='source_worker')[0]
    if rec['build'][0] != 'ok':
        raise MachineryFailure('cannot obtain generated source: %r' % (rec['build'],))
    # ... and of the same grammar compiled with a `grammar <name>` header (which adds the context registration code)
    rec2 = engine.run_real([dict(probe, id=0, cfg=dict(probe.get('cfg') or {}, name='vg_c20src'))], fn='source_worker')[0]
    if rec2['build'][0] != 'ok':
        raise MachineryFailure('cannot obtain generated source (named): %r' % (rec2['build'],))
    idents = source_identifiers(rec['obs'][0]) | source_identifiers(rec2['obs'][0])
    dyn = sorted(n for n in idents if usable(n, taken) and n not in fixed)
    # private names of the generated module are built as _<prefix>_<name> (_try_Word, _parse_function_12, ...): every
    # tail of such a name is a name a user could give to a rule; at most two per stem (numbers apart)
    import re
    tails, stems = [], {}
    for ident in sorted(idents):
        if not ident.startswith('_'):
            continue
        parts = ident.lstrip('_').split('_')
        for i in range(1, len(parts)):
            cand = '_'.join(parts[i:])
            stem = re.sub(r'\d+', '#', cand)
            if usable(cand, taken) and cand not in fixed and cand not in dyn and cand not in tails and stems.get(stem, 0) < 2:
                stems[stem] = stems.get(stem, 0) + 1
                tails.append(cand)
    chk.notes['private_name_tails'] = len(tails)
    chk.notes['private_name_tails_sample'] = tails[:30]
    dyn = sorted(set(dyn) | set(tails))
    chk.notes['dynamic_pool'] = len(dyn)
    chk.notes['dynamic_pool_sample'] = dyn[:25]
    cases2 = enumerate_cases(chk, dyn, 'MC_C20(dynamic pool)', dyn=True) if dyn else []
    allc = cases + cases2
    # an ignored rule is a rule: the names already listed as known findings for the role "rule" (builtins the runtime calls,
    # words of the description language) are not tried again in the role "ignored rule"
    known_rule_names = {f['tag'].split('|')[0] for f in chk.known if f.get('tag', '').endswith('|rule')} if hasattr(chk, 'known') else set()
    known_rule_names |= set(BUILTINS) | set(LANGUAGE_PREFIXES)
    allc = [c for c in allc if not ((c.get('cfg') or {}).get('role') == 'ignored rule' and (c['cfg'].get('to') in known_rule_names))]
    ill = [c for c in allc if any(e[0] == 'ill' for e in c['exp'])]
    if ill:     # the renaming of the specification must itself be complete (a run it calls ill-formed is never compared)
        raise MachineryFailure('renamed grammar ill-formed in the specification: %r' % (ill[0].get('cfg'),))
    for i, c in enumerate(allc):
        c['id'] = i
        c['cfg'] = dict(c.get('cfg') or {}, timeout_scale=0.4,      # tiny grammars, tiny inputs: 2 s (12 s to confirm)
                        objproto=True)                            # + _asdict / _replace / transform on every instance
    pegcheck.replay(chk, allc, tagger=tagger, sample_every=2999, timeout_budget=200)
    # the renamings of module-level names (rules, classes, templates) again in a grammar with a `grammar <name>` header
    named = []
    for c in allc:
        cfg = c.get('cfg') or {}
        if cfg.get('role') in ('rule', 'class', 'template', 'class template'):
            c2 = dict(c, id=len(named))
            c2['cfg'] = dict(cfg, name='vg_c20n_%d' % len(named))
            named.append(c2)
    chk.notes['named_grammar_cases'] = len(named)
    pegcheck.replay(chk, named, tagger=tagger, sample_every=2999, timeout_budget=200)
    # the same renamed grammars split over a base and a derived module (template roles)
    split = []
    for c in allc:
        cfg = c.get('cfg') or {}
        if cfg.get('role') in ('template', 'class template') and not cfg.get('dyn'):
            keep = [i for i, r in enumerate(c['runs']) if r[0] in SPLIT]
            c2 = dict(c, id=len(split), runs=[c['runs'][i] for i in keep], exp=[c['exp'][i] for i in keep])
            c2['cfg'] = dict(cfg, split=True)
            split.append(c2)
    chk.notes['split_module_cases'] = len(split)
    pegcheck.replay(chk, split, tagger=tagger, sample_every=997, fn='split_worker')
