CONSTANTS
  Tier = "quick"
INIT Init
NEXT Next
INVARIANT LawShift
CHECK_DEADLOCK FALSE
