"""Render abstract grammars (the tagged-tuple syntax of spec/PegSem.tla, as
JSON lists) into sourcer's grammar description language.

The renderer has no semantics: it only chooses a spelling.  `style` selects
alternative spellings (used by C19), `bytes_mode` renders literals as bytes.
"""
import json


class Style:
    """Spelling choices.  Every attribute is consulted through pick(),
    which is deterministic for a given (seed, counter)."""

    def __init__(self, variant=0, rng=None, definer='=', sep='\n', comments=False,
                 ignore_kw='ignore', bare_start=False, parens=False, break_ops=False, flat=False):
        self.variant = variant      # 0 = operator forms, 1 = constructor forms, 2 = per-node random
        self.rng = rng
        self.definer = definer      # '=', ':', '=>' ('mix' = per-definition random)
        self.sep = sep              # '\n' or ';'
        self.comments = comments
        self.ignore_kw = ignore_kw
        self.bare_start = bare_start
        self.parens = parens        # redundant parentheses
        self.break_ops = break_ops  # line breaks around binary operators
        self.flat = flat            # no parentheses at all around binary operator forms (C19 chains)

    def op(self, o):
        if self.break_ops and self.rng is not None:
            r = self.rng.random()
            if r < 0.12:
                return '\n    # a comment-only line before the continuation\n\n    ' + o + ' '
            if r < 0.3:
                return '\n    ' + o + ' '
            if r < 0.6:
                return ' ' + o + '\n    '
        return ' ' + o + ' '

    def ctor(self):
        if self.variant == 0:
            return False
        if self.variant == 1:
            return True
        return self.rng.random() < 0.5

    def define(self):
        if self.definer == 'mix':
            return self.rng.choice(['=', ':', '=>'])
        return self.definer


DEFAULT = Style()


def _chars(cps):
    return ''.join(chr(c) for c in cps)


def str_lit(cps, bytes_mode=False):
    out = []
    for c in cps:
        ch = chr(c)
        if ch == '"':
            out.append('\\"')
        elif ch == '\\':
            out.append('\\\\')
        elif ch == '\n':
            out.append('\\n')
        elif ch == '\t':
            out.append('\\t')
        elif ch == '\r':
            out.append('\\r')
        elif 32 <= c < 127:
            out.append(ch)
        else:
            out.append('\\x%02x' % c)
    return ('b' if bytes_mode else '') + '"' + ''.join(out) + '"'


_RX_SPECIAL = set('.^$*+?{}[]\\|()/')


def _rx_char(c, in_class=False):
    ch = chr(c)
    if ch == '\n':
        return '\\n'
    if ch == '\t':
        return '\\t'
    if ch == '\r':
        return '\\r'
    if ch == ' ':
        return ' ' if in_class else ' '
    if in_class:
        if ch in '\\]^-/':
            return '\\' + ch
        return ch
    if ch in _RX_SPECIAL:
        return '\\' + ch
    if not (32 <= c < 127):
        return '\\x%02x' % c
    return ch


def rx_src(r, top=True):
    k = r[0]
    if k == 'c':
        if len(r[1]) == 1:
            return _rx_char(r[1][0])
        return '[' + ''.join(_rx_char(c, True) for c in r[1]) + ']'
    if k == 'nc':
        return '[^' + ''.join(_rx_char(c, True) for c in r[1]) + ']'
    if k == 'cat':
        return ''.join(rx_src(x, False) for x in r[1])
    if k == 'alt':
        s = '|'.join(rx_src(x, False) for x in r[1])
        return s if top else '(?:' + s + ')'
    if k in ('star', 'plus', 'q'):
        inner = rx_src(r[1], False)
        if r[1][0] == 'cat' and len(r[1][1]) != 1:
            inner = '(?:' + inner + ')'
        op = {'star': '*', 'plus': '+', 'q': '?'}[k]
        return inner + op + ('' if r[2] else '?')
    if k == 'la':
        return ('(?=' if r[2] else '(?!') + rx_src(r[1], True) + ')'
    raise ValueError(r)


# Spelling option for closures: `lambda v_, x=x: ...` (every name of the grammar that the closure mentions is also
# bound as a default argument - a common Python idiom; same meaning, since defaults are evaluated where the lambda is).
LAM_DEFAULTS = False
# Spelling option for Sep(...): options passed by position instead of by keyword
SEP_POSITIONAL = False


def _py_vars(P, acc):
    if isinstance(P, (list, tuple)):
        if len(P) == 2 and P[0] == 'var' and isinstance(P[1], str):
            acc.append(P[1])
        else:
            for x in P:
                _py_vars(x, acc)
    return acc


def py_src(P):
    if LAM_DEFAULTS and P[0] == 'lam':
        names = list(dict.fromkeys(_py_vars(P[2], [])))
        plain = _py_src(P)
        if names and plain.startswith('lambda v_:'):
            return 'lambda v_, %s:%s' % (', '.join('%s=%s' % (n, n) for n in names), plain[len('lambda v_:'):])
        return plain
    return _py_src(P)


def _py_src(P):
    k = P[0]
    if k == 'var':
        return P[1]
    if k == 'k':
        return py_value_src(P[1])
    if k == 'lst':
        return '[' + ', '.join(py_src(x) for x in P[1]) + ']'
    if k == 'fn':
        return P[1]
    if k == 'lam':
        c = py_src(P[2])
        return {
            'eq': 'lambda v_: v_ == (%s)' % c,
            'ne': 'lambda v_: v_ != (%s)' % c,
            'lengt': 'lambda v_: len(v_) > len(%s)' % c,
            'const': 'lambda v_: (%s)' % c,
            'pair': 'lambda v_: [(%s), v_]' % c,
            'wrap': 'lambda v_: [v_]',
            'same': 'lambda v_: _vgate(v_)',
            'boomeq': 'lambda v_: _vboom(v_, %s)' % c,
        }[P[1]]
    if k == 'eq':
        return '(%s) == (%s)' % (py_src(P[1]), py_src(P[2]))
    if k == 'len':
        return 'len(%s)' % py_src(P[1])
    if k == 'sub':
        return '(%s) - %d' % (py_src(P[1]), P[2])
    if k == 'or':
        return '(%s) or %d' % (py_src(P[1]), P[2])
    raise ValueError(P)


def py_value_src(v):
    k = v[0]
    if k == 's':
        return repr(_chars(v[1]))
    if k == 'i':
        return str(v[1])
    if k == 'none':
        return 'None'
    if k == 't':
        return 'True'
    if k == 'f':
        return 'False'
    if k == 'l':
        return '[' + ', '.join(py_value_src(x) for x in v[1]) + ']'
    raise ValueError(v)


def bound_src(b):
    if b[0] == 'none':
        return None
    if b[0] == 'n':
        return str(b[1])
    if b[0] == 'name':
        return b[1]
    if b[0] == 'py':
        return '`' + py_src(b[1]) + '`'
    raise ValueError(b)


def expr(e, st=DEFAULT, bm=False):
    """Render expression `e`; the result is always safe as an operand."""
    s = _expr(e, st, bm)
    if st.parens and st.rng is not None and st.rng.random() < 0.3:
        s = '(' + s + ')'
    return s


class _NoCtor:
    """Spelling choice for a node whose operand is bare inline Python: the constructor forms read such an operand
    as an option value (the exception C19 states), so only the operator form denotes the expression."""

    def __init__(self, st):
        self.__dict__['_st'] = st

    def __getattr__(self, name):
        return getattr(self._st, name)

    def ctor(self):
        self._st.ctor()          # keep the random stream aligned
        return False


def _has_py_operand(e):
    for x in e[1:]:
        if isinstance(x, list) and x:
            if x[0] == 'py':
                return True
            if isinstance(x[0], list) and any(isinstance(y, list) and y and y[0] == 'py' for y in x):
                return True
    return False


def _expr(e, st, bm):
    k = e[0]
    X = lambda x: expr(x, st, bm)
    if k in ('seq', 'left', 'right', 'choice', 'opt', 'list', 'sep') and _has_py_operand(e):
        inner_st = st
        st = _NoCtor(st)
    if k == 'str':
        return str_lit(e[1], bm)
    if k == 'stri':
        return str_lit(e[1], bm) + 'i'
    if k == 'rx':
        return ('b' if bm else '') + '/' + rx_src(e[1]) + '/' + ('i' if e[2] else '')
    if k == 'byte':
        return '0x%02X' % e[1]
    if k == 'ref':
        return e[1]
    if k == 'super':
        return 'super.' + e[1]
    if k == 'seq':
        if st.ctor() and e[1]:
            return 'Seq(' + ', '.join(X(x) for x in e[1]) + ')'
        return '[' + ', '.join(X(x) for x in e[1]) + ']'
    if k == 'left':
        if st.ctor():
            return 'Left(%s, %s)' % (X(e[1]), X(e[2]))
        return '(%s%s%s)' % (X(e[1]), st.op('<<'), X(e[2]))
    if k == 'right':
        if st.ctor():
            return 'Right(%s, %s)' % (X(e[1]), X(e[2]))
        return '(%s%s%s)' % (X(e[1]), st.op('>>'), X(e[2]))
    if k == 'choice':
        if st.ctor():
            return 'Choice(' + ', '.join(X(x) for x in e[1]) + ')'
        return '(' + st.op('|').join(X(x) for x in e[1]) + ')'
    if k == 'opt':
        if st.ctor():
            return 'Opt(%s)' % X(e[1])
        return '(%s)?' % X(e[1])
    if k == 'list':
        lo, hi = bound_src(e[2]), bound_src(e[3])
        inner = X(e[1])
        if st.ctor() and e[2][0] in ('none', 'n') and e[3][0] in ('none', 'n'):
            if lo is None and hi is None:
                return 'List(%s)' % inner
            if lo == '1' and hi is None:
                return 'Some(%s)' % inner
            kw = []
            if lo is not None:
                kw.append('min_len=%s' % lo)
            if hi is not None:
                kw.append('max_len=%s' % hi)
            return 'List(%s, %s)' % (inner, ', '.join(kw))
        if lo is None and hi is None:
            return '(%s)*' % inner
        if lo == '1' and hi is None:
            return '(%s)+' % inner
        if lo is not None and lo == hi:
            return '(%s){%s}' % (inner, lo)
        return '(%s){%s,%s}' % (inner, lo or '', hi or '')
    if k == 'sep':
        d, t, em, rq = e[3]
        a, b = X(e[1]), X(e[2])
        if d and em and not rq and not st.ctor():
            return '(%s%s%s)' % (a, st.op('/?' if t else '//'), b)
        if SEP_POSITIONAL:
            # the options by position, in the documented order (trailing defaults left out)
            vals = [d, t, em, rq]
            dflt = [True, False, True, False]
            while vals and vals[-1] == dflt[len(vals) - 1]:
                vals.pop()
            return 'Sep(%s)' % ', '.join([a, b] + ['True' if v else 'False' for v in vals])
        kw = []
        if not d:
            kw.append('discard_separators=False')
        if t:
            kw.append('allow_trailer=True')
        if not em:
            kw.append('allow_empty=False')
        if rq:
            kw.append('require_separator=True')
        return 'Sep(%s)' % ', '.join([a, b] + kw)
    if k == 'expect':
        return 'Expect(%s)' % X(e[1])
    if k == 'not':
        return 'ExpectNot(%s)' % X(e[1])
    if k == 'skip':
        return 'Skip(' + ', '.join(X(x) for x in e[1]) + ')'
    if k == 'longest':
        return 'Longest(' + ', '.join(X(x) for x in e[1]) + ')'
    if k == 'back':
        return 'Backtrack(%d)' % e[1]
    if k == 'fail':
        return 'Fail()'
    if k == 'let':
        return '(let %s %s %s in %s)' % (e[1], st.define(), X(e[2]), X(e[3]))
    if k == 'where':
        return '(%s where %s)' % (X(e[1]), X(e[2]))
    if k == 'apply':
        return '(%s |> %s)' % (X(e[1]), X(e[2]))
    if k == 'applyl':
        return '(%s <| %s)' % (X(e[1]), X(e[2]))
    if k == 'py':
        P = e[1]
        if P[0] == 'k' and P[1][0] == 'i' and P[1][1] >= 0:
            return str(P[1][1])
        if P[0] == 'k' and P[1][0] in ('none', 't', 'f'):
            return py_value_src(P[1])
        return '`' + py_src(P) + '`'
    if k == 'call':
        args = []
        for a in e[2]:
            if a[0] == 'kw':
                args.append('%s=%s' % (a[1], X(a[2])))
            else:
                args.append(X(a[1]))
        return '%s(%s)' % (e[1], ', '.join(args))
    if k == 'scall':
        args = []
        for a in e[2]:
            args.append('%s=%s' % (a[1], X(a[2])) if a[0] == 'kw' else X(a[1]))
        return 'super.%s(%s)' % (e[1], ', '.join(args))
    if k == 'optable':
        rows = []
        for assoc, ops in e[2]:
            rows.append('    %s: %s' % (assoc, ', '.join(X(o) for o in ops)))
        return '(%s between {\n%s\n})' % (X(e[1]), '\n'.join(rows))
    raise ValueError('cannot render %r' % (e,))


def grammar(g, st=DEFAULT, bm=False, name=None, extends=None, ign_first=False,
            ign_names=None, order=None):
    """Render grammar record g = {'rules': {name: rule}, 'ign': [exprs], 'start': s}.

    ign_names: optional list of names (or None for anonymous) per ignore pattern.
    order: optional list of rule names giving the order of definitions.
    """
    stmts = []
    ign = []
    for i, ie in enumerate(g.get('ign') or []):
        nm = ign_names[i] if ign_names else None
        if ie[0] == 'ref' and ie[1].startswith('_'):
            continue        # inherited marker, rendered by the module layer
        if nm:
            ign.append('%s %s %s %s' % (st.ignore_kw, nm, st.define(), expr(ie, st, bm)))
        else:
            ign.append('%s %s' % (st.ignore_kw, expr(ie, st, bm)))
    names = order or list(g['rules'].keys())
    for nm in names:
        r = g['rules'][nm]
        params = ''
        if r['params']:
            params = '(' + ', '.join(r['params']) + ')'
        if r['kind'] == 'rule':
            if st.bare_start and nm == g.get('start') and len(names) == 1 and not ign:
                stmts.append(expr(r['body'], st, bm))
            else:
                stmts.append('%s%s %s %s' % (nm, params, st.define(), expr(r['body'], st, bm)))
        else:
            ms = []
            for m in r['members']:
                mk = m[0]
                if mk == 'field':
                    ms.append('    %s%s %s' % (m[1], ':' if st.define() == ':' else ' ' + st.define(), expr(m[2], st, bm)))
                elif mk == 'let':
                    d = ':' if st.definer == '=' else st.define()       # (default spelling: `let x: e`)
                    ms.append('    let %s%s %s' % (m[1], ':' if d == ':' else ' ' + d, expr(m[2], st, bm)))
                elif mk == 'pass':
                    ms.append('    pass %s' % expr(m[2], st, bm))
                elif mk == 'req':
                    ms.append('    requires `%s`' % py_src(m[2]))
            stmts.append('class %s%s {\n%s\n}' % (nm, params, (' ;\n' if st.sep == ';' else '\n').join(ms)))
    if ign_first:
        stmts = ign + stmts
    else:
        stmts = stmts + ign
    out = []
    if name:
        head = 'grammar %s' % name
        if extends:
            head += ' extends %s' % extends
        out.append(head)
    for s in stmts:
        if st.comments and st.rng is not None and st.rng.random() < 0.5:
            out.append('# comment %d' % len(out))
        if st.comments and st.rng is not None and st.sep == '\n' and st.rng.random() < 0.4:
            s = s + '   # a comment at the end of the line, the next statement follows directly'
        out.append(s)
    sep = st.sep
    if sep == ';':
        # class bodies contain newlines; ';' between statements is still fine
        text = ' ;\n'.join(out[1:] if name else out) + ' ;'          # also after the last statement
        if name:
            text = out[0] + '\n' + text
    else:
        text = '\n'.join(out)
    return text + '\n'


if __name__ == '__main__':
    import sys
    for line in sys.stdin:
        c = json.loads(line)
        print(grammar(c['g']))
