------------------------------- MODULE MC_C13 -------------------------------
(***************************************************************************)
(* C13 - inheritance.  Family: chains of 2 and 3 modules; per level every  *)
(* rule is inherited, overridden (also by a class / a rule of the other    *)
(* kind), overridden using super, or new; ignore patterns declared in the  *)
(* base (named or anonymous) and optionally added to by a derived module.  *)
(* Every module of the chain is used as the one parsing is started         *)
(* through - the harness creates them in order and parses through each     *)
(* module before and after its descendants exist, and finally re-creates   *)
(* the base under the same name with different rules and extends it again  *)
(* (history part of C13 / C18).                                            *)
(***************************************************************************)
EXTENDS Modules

CONSTANTS Tier

sp == 32
dash == 45
c3 == 99
A1 == Str(<<a>>)
B1 == Str(<<b>>)
C1 == Str(<<c3>>)
Blank == Rgx(RxPlus(Cls(<<sp>>)))

RECURSIVE Nest(_, _)
Nest(x, n) == IF n = 0 THEN x ELSE Seq1(Nest(x, n - 1))        \* [[[ ... x ... ]]]

Base(ig) ==
    [rules |-> [start |-> Rule(Seq2(Ref("X"), Opt(Ref("Y")))),
                X |-> Rule(A1),
                Y |-> Rule(Plus(B1)),
                K |-> Class(<<Field("k", Ref("X")), Field("rest", Star(Ref("Y")))>>),
                Z |-> Rule(Seq2(Ref("Y"), Ref("X"))),
                \* a rule that cannot fail (a derived level may override it with one that can) and a rule using it
                O |-> Rule(Star(C1)),
                P |-> Rule(Ch2(Seq2(Ref("O"), Ref("X")), Str(<<33>>))),
                \* nested deeper than the generator's block budget: the reference to X sits in a helper function
                Deep |-> Rule(Seq2(Str(<<37>>), Nest(Seq2(Ref("X"), Opt(Str(<<37>>))), 22))),
                T |-> RuleP(<<"p">>, Seq2(Ref("p"), Opt(Str(<<33>>)))),          \* a parameterised rule
                U |-> Rule(Seq2(Str(<<35>>), Call("T", <<Pos(Ref("X"))>>)))],      \* ... used with a rule name as argument
     ign |-> IF ig = "none" THEN <<>> ELSE <<Blank>>]

(* what a derived level does with each rule: option tags *)
XOpts == {"inherit", "override", "super"}
YOpts == {"inherit", "override"}
SOpts == {"inherit", "override", "super"}
KOpts == {"inherit", "rule"}
NOpts == {"absent", "new", "tsuper"}       \* tsuper: T(p) overridden in terms of super.T(p)

Derived(xo, yo, so, ko, no, addign) ==
    LET r1 == IF xo = "override" THEN [X |-> Rule(C1)]
              ELSE IF xo = "super" THEN [X |-> Rule(Seq2(<<"super", "X">>, Opt(C1)))] ELSE <<>>
        r2 == IF yo = "override" THEN [Y |-> Rule(Ch2(C1, B1)), O |-> Rule(Plus(C1))] ELSE <<>>
        r3 == IF so = "override" THEN [start |-> Rule(Seq2(Opt(Ref("Y")), Ref("X")))]
              ELSE IF so = "super" THEN [start |-> Rule(Seq2(<<"super", "start">>, Opt(Str(<<33>>))))] ELSE <<>>
        r4 == IF ko = "rule" THEN [K |-> Rule(Seq2(Ref("X"), Ref("X")))] ELSE <<>>
        \* (a new rule of the derived level that refers to inherited rules AND to the inherited class K by name)
        r5 == IF no = "new" THEN [N |-> Rule(<<"choice", <<Ref("Deep"), Seq3(Ref("X"), Ref("Z"), Opt(Ref("K"))), Seq2(Str(<<36>>), Ref("P"))>>>>)]
              ELSE IF no = "tsuper"
              THEN [T |-> RuleP(<<"p">>, Seq2(Str(<<36>>), <<"scall", "T", <<Pos(Ref("p"))>>>>)),
                    \* a rule of this level that goes through the inherited U (and so through T and X, late-bound)
                    V |-> Rule(Seq2(Ref("U"), Opt(Call("T", <<Pos(C1)>>))))]
              ELSE <<>>
    IN [rules |-> r1 @@ r2 @@ r3 @@ r4 @@ r5, ign |-> IF addign THEN <<Str(<<dash>>)>> ELSE <<>>]

VARIABLES ig, d2, d3, cap, done          \* cap: the base spells its start rule "Start"
vars == <<ig, d2, d3, cap, done>>

Opts == {<<xo, yo, so, ko, no>> : xo \in XOpts, yo \in YOpts, so \in SOpts, ko \in KOpts, no \in NOpts}
NonTrivial(o) == o # <<"inherit", "inherit", "inherit", "inherit", "absent">>
(* level 3 choices: a smaller set, including super in the middle of the chain being late-bound *)
Opts3 == { <<"inherit", "inherit", "inherit", "inherit", "absent">>,    \* (placeholder = chain of 2)
           <<"override", "inherit", "inherit", "inherit", "absent">>,
           <<"super", "inherit", "inherit", "inherit", "new">>,
           <<"inherit", "override", "super", "inherit", "absent">>,
           <<"super", "override", "override", "rule", "new">>,
           <<"inherit", "inherit", "inherit", "inherit", "tsuper">>,
           <<"override", "inherit", "inherit", "inherit", "tsuper">> }

Special == { <<"super", "inherit", "inherit", "inherit", "absent">>,
             <<"override", "override", "super", "inherit", "new">>,
             <<"super", "inherit", "override", "rule", "new">>,
             <<"inherit", "override", "super", "inherit", "absent">>,
             <<"inherit", "inherit", "inherit", "inherit", "tsuper">>,
             <<"super", "inherit", "inherit", "inherit", "tsuper">>,
             <<"override", "inherit", "inherit", "inherit", "tsuper">> }

Init == /\ ig \in {"none", "named", "anon", "both", "bothanon"}
        /\ d2 \in {o \in Opts : NonTrivial(o)}
        /\ d3 \in Opts3
        /\ (Tier = "quick" => ig # "named")
        /\ (Tier = "quick" => IF ig = "none" THEN ~NonTrivial(d3) \/ d2 \in Special ELSE d2 \in Special)
        /\ cap \in BOOLEAN
        /\ (cap => (d2[3] = "inherit" /\ d3[3] = "inherit" /\ (Tier = "quick" => d2 \in Special)))
        /\ done = FALSE

SName == IF cap THEN "Start" ELSE "start"
Cap(m) == IF cap THEN [m EXCEPT !.rules = [n \in ((DOMAIN m.rules) \ {"start"}) \cup {"Start"} |->
                                              IF n = "Start" THEN m.rules["start"] ELSE m.rules[n]]]
          ELSE m

Chain ==
    LET bb == Base(ig)
        m2 == Derived(d2[1], d2[2], d2[3], d2[4], d2[5], ig \in {"both", "bothanon"})
        m3 == Derived(d3[1], d3[2], d3[3], d3[4], d3[5], FALSE)
    IN IF NonTrivial(d3) THEN <<Cap(bb), m2, m3>> ELSE <<Cap(bb), m2>>

(* the base re-created under the same name with different rules, and extended again *)
Chain2 ==
    \* the new base has a rule (W) that the old one did not have, and the new extender uses it
    LET b2 == [rules |-> [start |-> Rule(Seq2(Ref("X"), Ref("X"))), X |-> Rule(B1), Y |-> Rule(A1),
                          K |-> Class(<<Field("k", Ref("Y"))>>), Z |-> Rule(Ref("X")),
                          W |-> Rule(Plus(C1))],
               ign |-> Base(ig).ign]
        e2 == [Chain[2] EXCEPT !.rules = ("M" :> Rule(Seq2(Ref("W"), Opt(Ref("X"))))) @@ @]
    IN <<Cap(b2), e2>>

(* ... and the UNCHANGED description of level 2 compiled once more, now on top of the re-created base *)
Chain3 == <<Chain2[1], Chain[2]>>

Alpha == IF ig = "none" THEN <<a, b, c3>> ELSE IF ig \in {"both", "bothanon"} THEN <<a, b, c3, sp, dash>> ELSE <<a, b, c3, sp>>
Texts == TextSeqUpTo(Alpha, IF Tier = "quick" \/ ig # "none" THEN 3 ELSE 4)     \* (length 4 over 5 letters made the thorough instance run for an hour)
         \o << <<a, b, b, 33>>, <<a, c3, b, b>>, <<b, b, a, c3>>, <<a, c3, b, 33>>, <<a, a, b, a>>, <<c3, c3, a>>,
               <<36, a>>, <<36, c3, a>>, <<36, c3, c3, a>>, <<36, 33>>,
               <<35, a, 33>>, <<35, 36, a, 33>>, <<35, 36, 36, a>>, <<35, c3>>, <<35, 36, c3, 33>>, <<35, 36, a, c3, 33>>,
               <<35, 36, 36, a, c3>>, <<37, a>>, <<37, c3>>, <<37, a, c3, 37>>, <<37, a, 37>>, <<37, c3, 37, a>> >>
         \o (IF ig = "none" THEN <<>> ELSE << <<sp, a, sp, b, sp, b>>, <<a, sp, c3, sp, b>>, <<sp, sp, a, sp, a>> >>)

EntriesOf(chain, top) == SelectSeq(<<SName, "X", "Y", "K", "Z", "N", "M", "U", "V", "O", "P">>, LAMBDA r : HasDef(chain, 1, top, r))

RunsFor(chain, top) ==
    LET G == FlatS(chain, top, SName)
        es == EntriesOf(chain, top)
    IN [k \in 1..(Len(es) * Len(Texts)) |->
           LET en == es[((k - 1) \div Len(Texts)) + 1]
               tx == Texts[((k - 1) % Len(Texts)) + 1]
               r == EvalEntry(G, EntryName(chain, top, en), tx, 0)
           IN <<en, tx, 0, r.t, r.v, r.e, r.far>>]

Step == /\ ~done
        /\ done' = TRUE
        /\ UNCHANGED <<ig, d2, d3, cap>>
        /\ PrintT(ToJson([chain |-> Chain, chain2 |-> Chain2, ig |-> ig,
                          runs |-> [top \in 1..Len(Chain) |-> RunsFor(Chain, top)],
                          runs2 |-> [top \in 1..2 |-> RunsFor(Chain2, top)],
                          runs3 |-> RunsFor(Chain3, 2)]))

Next == Step

\* the behaviour of a module is a function of the module and its ancestors alone
FrameLaw ==
    done => \A top \in 1..(Len(Chain) - 1) :
              Flat(Chain, top) = Flat(SubSeq(Chain, 1, top), top)
=============================================================================
