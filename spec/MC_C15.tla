------------------------------- MODULE MC_C15 -------------------------------
(***************************************************************************)
(* C15 / C16 / C14 family: all trees up to a bound over objects of arity   *)
(* 0..2, lists, tuples, dicts, leaves with every kind of CPython sharing   *)
(* (None, cached small int, interned string, equal-but-distinct strings    *)
(* and big ints) and shared sub-structures.                                *)
(* In every state TLC checks the explicit-stack machines of Walk against   *)
(* the declarative Preorder / Events, and emits the tree with the expected *)
(* visit order, traverse events and transform results for the replay.      *)
(***************************************************************************)
EXTENDS Walk, Json

CONSTANTS Tier, Mode      \* Mode: "walk" (C15) | "xform" (C16) | "value" (C14)

Leaves == { <<"leaf", "none">>, <<"leaf", "int1">>, <<"leaf", "interned">>,
            <<"leaf", "dstr", 1>>, <<"leaf", "dstr", 2>>, <<"leaf", "bigint", 1>> }
LeavesSmall == { <<"leaf", "none">>, <<"leaf", "int1">>, <<"leaf", "dstr", 1>> }
Shareds == { <<"shared", 1>>, <<"shared", 2>>, <<"shared", 3>> }

(* depth-1 nodes over a set K of kids *)
Nodes(K) ==
         { <<"obj", "Z", <<>>>> }
    \cup { <<"obj", "A", <<k>>>> : k \in K } \cup { <<"obj", "A2", <<k>>>> : k \in K }
    \cup { <<"obj", "B", <<k1, k2>>>> : k1 \in K, k2 \in K }
    \cup { <<"list", <<>>>> } \cup { <<"list", <<k>>>> : k \in K } \cup { <<"list", <<k1, k2>>>> : k1 \in K, k2 \in K }
    \cup { <<"tuple", <<k1, k2>>>> : k1 \in K, k2 \in K }
    \cup { <<"dict", << <<"k2", k1>>, <<"k1", k2>> >>>> : k1 \in K, k2 \in K }      \* (the first key is the greater one)

L1 == Nodes(Leaves \cup Shareds)
Mid == { <<"obj", "Z", <<>>>>, <<"obj", "A", << <<"leaf", "none">> >>>>, <<"list", << <<"leaf", "int1">>, <<"leaf", "none">> >>>>,
         <<"obj", "B", << <<"leaf", "none">>, <<"leaf", "none">> >>>>, <<"tuple", << <<"shared", 1>>, <<"leaf", "dstr", 1>> >>>>,
         <<"dict", << <<"k2", <<"shared", 1>>>>, <<"k1", <<"leaf", "int1">>>> >>>>,
         \* a tuple holding an unhashable value (a list)
         <<"tuple", << <<"list", << <<"leaf", "int1">> >>>>, <<"leaf", "none">> >>>>,
         \* a list holding a shared object FOLLOWED by another object: nested in lists, tuples, dicts; next to the shared
         \* object itself it is the case "met again later, at a shallower place"
         <<"list", << <<"shared", 1>>, <<"obj", "Z", <<>>>> >>>> }
K2 == LeavesSmall \cup Shareds \cup Mid

VARIABLES t, done
vars == <<t, done>>

Init == /\ \/ t \in L1
           \/ t \in Nodes(K2)
           \/ (Tier # "quick" /\ t \in Nodes(Nodes(LeavesSmall \cup {<<"shared", 1>>}) \cup {<<"shared", 3>>}))
        /\ done = FALSE

CbVecs == { <<"id">>, <<"AtoZ">>, <<"Bswap">>, <<"Achild">>, <<"Zleaf">>, <<"Blist">>,
            <<"AtoZ", "Zleaf">>, <<"Bswap", "Achild">>, <<"Achild", "AtoZ">>, <<"id", "Bswap">> }

CbSeq == << <<"id">>, <<"AtoZ">>, <<"Bswap">>, <<"Achild">>, <<"Zleaf">>, <<"Blist">>,
            <<"AtoZ", "Zleaf">>, <<"Bswap", "Achild">>, <<"Achild", "AtoZ">>, <<"id", "Bswap">>,
            <<"Acopy">>, <<"Acopy", "Bswap">>, <<"Nest", "AtoZ">>, <<"Bswap", "Nest", "Zleaf">> >>

Step == /\ ~done
        /\ done' = TRUE
        /\ UNCHANGED t
        /\ PrintT(ToJson(
             IF Mode = "walk" THEN [t |-> t, visit |-> Preorder(t), events |-> Events(t)]
             ELSE IF Mode = "xform" THEN [t |-> t, value |-> Expand(t),
                                          xf |-> [i \in 1..Len(CbSeq) |-> [cbs |-> CbSeq[i], res |-> BottomUp(t, CbSeq[i])[1],
                                                                            log |-> BottomUp(t, CbSeq[i])[2],
                                                                            origins |-> BottomUpO(t, CbSeq[i])]]]
             ELSE [t |-> t, value |-> Expand(t)]))

Next == Step

VisitRefines    == done => VisitVM(t) = Preorder(t)
TraverseRefines == done => TraverseVM(t) = Events(t)

\* structural lemmas of the declarative definitions
EventsBalanced ==
    done => LET ev == Events(t) IN
            /\ Len(ev) % 2 = 0
            /\ ev[1][4] = FALSE /\ ev[Len(ev)][4] = TRUE /\ ev[1][3] = ev[Len(ev)][3]
            /\ Cardinality({i \in 1..Len(ev) : ev[i][4]}) * 2 = Len(ev)
PreorderOnce ==
    done => LET p == Preorder(t) IN Cardinality({p[i] : i \in 1..Len(p)}) = Len(p)
IdentityTransform ==
    done => BottomUp(t, <<"id">>)[1] = Expand(t)
\* the origin-tracking rewrite computes the same values
RECURSIVE DropO(_)
DropO(v) == CASE v[1] = "obj" -> <<"obj", v[2], [i \in 1..Len(v[3]) |-> DropO(v[3][i])]>>
              [] v[1] \in {"list", "tuple"} -> <<v[1], [i \in 1..Len(v[2]) |-> DropO(v[2][i])]>>
              [] v[1] = "dict" -> <<"dict", [i \in 1..Len(v[2]) |-> <<v[2][i][1], DropO(v[2][i][2])>>]>>
              [] OTHER -> v
OriginsConsistent ==
    done => \A i \in 1..Len(CbSeq) : DropO(BottomUpO(t, CbSeq[i])) = BottomUp(t, CbSeq[i])[1]
=============================================================================
