--------------------------- MODULE Trace_Bootstrap ---------------------------
(***************************************************************************)
(* Validates the recorded history of a real bootstrap run (events in the   *)
(* ndjson file named by TRACE) against Bootstrap; the invariants are the   *)
(* three clauses of C12.                                                   *)
(***************************************************************************)
EXTENDS Bootstrap, Json, IOUtils, TLC, Sequences

Trace == ndJsonDeserialize(IOEnv.TRACE)
VARIABLE l
tvars == <<installed, src, selfok, agree, differ, redo, l>>

TInit == BInit /\ l = 1
IsEvent(name) == l <= Len(Trace) /\ Trace[l].ev = name /\ l' = l + 1
E == Trace[l]

TGenerate  == IsEvent("generate") /\ E.from = installed /\ Generate(E.sha)
TSelfParse == IsEvent("selfparse") /\ SelfParse(E.gen, E.ok)
TInstall   == IsEvent("install") /\ Install(E.gen)
TCompare   == IsEvent("compare") /\ Compare(E.d, E.same)

TRegenerate == IsEvent("regenerate") /\ E.from = installed /\ Regenerate(E.sha)

TNext == TGenerate \/ TSelfParse \/ TInstall \/ TCompare \/ TRegenerate

InvFixedPoint == FixedPoint
InvSelfHosting == SelfHosting
InvSameLanguage == SameLanguage
InvDeterministic == Deterministic

TraceAccepted ==
    LET n == TLCGet("stats").diameter - 1 IN
    /\ PrintT(<<"TRACE-CONSUMED", n, Len(Trace)>>)
    /\ n = Len(Trace)
=============================================================================
