------------------------------- MODULE MC_C17 -------------------------------
(***************************************************************************)
(* C17 - nesting depth never changes meaning.                              *)
(* Family: inner expression x transparent wrapper x EVERY depth 1..MaxD    *)
(* (so every block-budget threshold of the generator is crossed without    *)
(* knowing where it is) x {unnamed, named}.  The expected value at each    *)
(* depth is computed by PegSem on the really nested expression; the law    *)
(* WrapTransparent (the wrapped result is the wrapper's image of the       *)
(* unwrapped one, same end position) is checked in every state.            *)
(***************************************************************************)
EXTENDS Fam

CONSTANTS Tier

sp == 32
A1 == Str(<<a>>)
W  == Rgx(RxPlus(Cls(<<a, b>>)))
Lam(kind, x) == Py(<<"lam", kind, <<"var", x>>>>)

(* wrappers: each is semantically transparent up to a fixed image of the value *)
Wrappers == {"seq", "optseq", "opt", "failor", "zzor", "left", "expectseq", "altopt"}
Wrap(w, x) ==
    CASE w = "seq"    -> Seq1(x)                                   \* [x]
      [] w = "optseq" -> Seq2(Opt(Str(<<122>>)), x)                \* ["z"?, x]
      [] w = "opt"    -> Opt(x)                                    \* (x)?
      [] w = "failor" -> Ch2(FailE, x)                             \* Fail() | x
      [] w = "zzor"   -> Right(Ch2(Str(<<122, 122>>), Str(<<>>)), x)  \* ("zz" | "") >> x : a choice whose first branch fails
      [] w = "left"   -> Left(x, Str(<<>>))                        \* x << ""
      [] w = "expectseq" -> Right(Expect(x), x)                    \* Expect(x) >> x
         \* an expression that always succeeds, entered right after a failed alternative, at every depth
      [] w = "altopt" -> Ch2(Str(<<78>>), Opt(Seq1(x)))            \* "N" | Opt([x])
WrapV(w, v) ==
    CASE w = "seq" -> <<"l", <<v>>>>
      [] w = "optseq" -> <<"l", <<None, v>>>>
      [] w = "altopt" -> <<"l", <<v>>>>
      [] OTHER -> v

RECURSIVE WrapN(_, _, _)
WrapN(w, x, n) == IF n = 0 THEN x ELSE Wrap(w, WrapN(w, x, n - 1))
RECURSIVE WrapVN(_, _, _)
WrapVN(w, v, n) == IF n = 0 THEN v ELSE WrapV(w, WrapVN(w, v, n - 1))

(* inner expressions: <<kind, how the wrapped expression is placed in the grammar>> *)
Inners == {"lit", "ref", "litign", "call", "pylet", "pyfield", "pyletfield", "countletfield", "pyparam", "wherelet", "count",
           "argfield", "arglet"}        \* a bound name passed on as a plain argument (no inline Python involved)

(* grammar for (inner kind, wrapped-expression builder F) *)
Grammar(ik, w, n) ==
    LET F(x) == WrapN(w, x, n)
        base == [ A |-> Rule(A1), Id |-> RuleP(<<"p">>, Ref("p")), Wd |-> Rule(W),
                  V |-> RuleP(<<"v">>, Seq2(Opt(Str(<<44>>)), PyVar("v"))) ]
    IN CASE ik = "lit"    -> [rules |-> ("start" :> Rule(F(A1))) @@ base, ign |-> <<>>, start |-> "start"]
         [] ik = "ref"    -> [rules |-> ("start" :> Rule(F(Ref("A")))) @@ base, ign |-> <<>>, start |-> "start"]
         [] ik = "litign" -> [rules |-> ("start" :> Rule(F(A1))) @@ base,
                              ign |-> <<Rgx(RxPlus(Cls(<<sp>>)))>>, start |-> "start"]
         [] ik = "call"   -> [rules |-> ("start" :> Rule(F(Call("Id", <<Pos(A1)>>)))) @@ base, ign |-> <<>>, start |-> "start"]
         [] ik = "pylet"  -> [rules |-> ("start" :> Rule(Let("x", Ref("Wd"), F(PyVar("x"))))) @@ base, ign |-> <<>>, start |-> "start"]
         [] ik = "pyfield" -> [rules |-> ("start" :> Class(<<Field("x", Ref("Wd")), Field("y", F(PyVar("x")))>>)) @@ base,
                               ign |-> <<>>, start |-> "start"]
         [] ik = "pyletfield" -> [rules |-> ("start" :> Class(<<LetF("x", Ref("Wd")), Field("y", F(PyVar("x")))>>)) @@ base,
                                  ign |-> <<>>, start |-> "start"]
         [] ik = "countletfield" -> [rules |-> ("start" :> Class(<<LetF("n", Apply(Rgx(Cls(<<49, 50>>)), Py(<<"fn", "int">>))),
                                                                  Field("items", F(Rep(A1, Nm("n"), Nm("n"))))>>)) @@ base,
                                     ign |-> <<>>, start |-> "start"]
         [] ik = "argfield" -> [rules |-> ("start" :> Class(<<Field("x", Ref("Wd")), Field("y", F(Call("V", <<Pos(Ref("x"))>>)))>>)) @@ base,
                                ign |-> <<>>, start |-> "start"]
         [] ik = "arglet" -> [rules |-> ("start" :> Rule(Let("x", Ref("Wd"), F(Call("V", <<Pos(Ref("x"))>>))))) @@ base,
                              ign |-> <<>>, start |-> "start"]
         [] ik = "pyparam" -> [rules |-> ("start" :> Rule(Call("T", <<Pos(Ref("Wd"))>>)) @@ ("T" :> RuleP(<<"q">>, Seq2(Ref("q"), F(Py(<<"lst", << <<"k", <<"i", 1>>>> >> >>))))))
                                          @@ base, ign |-> <<>>, start |-> "start"]
         [] ik = "wherelet" -> [rules |-> ("start" :> Rule(Let("x", Left(Ref("Wd"), Str(<<44>>)), F(Where(Ref("Wd"), Lam("eq", "x")))))) @@ base,
                                ign |-> <<>>, start |-> "start"]
         [] ik = "count"  -> [rules |-> ("start" :> Rule(Let("n", Apply(Rgx(Cls(<<49, 50>>)), Py(<<"fn", "int">>)), F(Rep(A1, Nm("n"), Nm("n")))))) @@ base,
                              ign |-> <<>>, start |-> "start"]

Texts(ik) ==
    CASE ik \in {"lit", "ref", "call"} -> << <<a>>, <<b>>, <<>>, <<a, a>>, <<122, a>>, <<122, 122, a>> >>
      [] ik = "litign" -> << <<a>>, <<sp, a, sp, sp>>, <<a, sp, b>>, <<sp>>, <<122, sp, a>> >>
      [] ik \in {"pylet", "pyfield", "pyletfield", "pyparam", "argfield", "arglet"} -> << <<a, b>>, <<b>>, <<>>, <<a, 44>> >>
      [] ik = "countletfield" -> << <<50, a, a>>, <<49, a, a>>, <<50, a>>, <<49>> >>
      [] ik = "wherelet" -> << <<a, b, 44, a, b>>, <<a, 44, b>>, <<a, b, 44>>, <<b, 44, b, a>> >>
      [] ik = "count" -> << <<50, a, a>>, <<49, a, a>>, <<50, a>>, <<49>> >>

MaxD == IF Tier = "quick" THEN 45 ELSE 130

VARIABLES ik, w, n, named, done
vars == <<ik, w, n, named, done>>

Init == /\ ik \in Inners /\ w \in Wrappers /\ n \in 1..MaxD /\ named \in {FALSE, TRUE}
        \* quick: every depth for the sequence wrappers (they deepen the generated blocks), a sample of depths otherwise
        /\ (Tier = "quick" => (w \in {"seq", "optseq", "altopt"} \/ n \in {1, 2, 10, 17, 18, 19, 20, 21, 30, 45}))
        /\ (w = "altopt" => (ik \in {"lit", "ref", "litign", "count"} /\ n <= 40))
        /\ (Tier = "quick" => (named = (n % 2 = 0)))
        /\ (w = "expectseq" => ik \notin {"pylet", "pyfield", "pyletfield", "pyparam", "argfield", "arglet"})   \* Expect(`..`) reads inline Python as an option value
        /\ (w = "expectseq" => n <= 8)              \* this wrapper doubles the expression at every level
        /\ done = FALSE

Step == /\ ~done
        /\ done' = TRUE
        /\ UNCHANGED <<ik, w, n, named>>
        /\ EmitCase(Grammar(ik, w, n), IF named THEN [prop |-> "C17", name |-> "vg_c17"] ELSE [prop |-> "C17"],
                    <<"start">>, Texts(ik))

Next == Step

\* wrapping is transparent: same outcome as depth 0 up to the wrapper's image of the value
LawWrapTransparent ==
    (done /\ ik \in {"lit", "ref", "litign", "call"}) =>
    \A k \in 1..Len(Texts(ik)) :
        LET r0 == EvalEntry(Grammar(ik, w, 0), "start", Texts(ik)[k], 0)
            rn == EvalEntry(Grammar(ik, w, n), "start", Texts(ik)[k], 0)
        IN IF w = "opt"
           THEN rn.t = "ok" /\ (r0.t = "ok" => (rn.v = r0.v /\ rn.e = r0.e))
           ELSE IF w = "altopt"
           THEN rn.t = "ok" /\ (r0.t = "ok" => (rn.v = WrapVN(w, r0.v, n) /\ rn.e = r0.e))
           ELSE IF w = "optseq" /\ Texts(ik)[k] # <<>> /\ Texts(ik)[k][1] = 122
           THEN TRUE       \* the optional "z" of the outermost layer may consume input
           ELSE IF w = "zzor" /\ Texts(ik)[k] # <<>> /\ Texts(ik)[k][1] = 122
           THEN TRUE
           ELSE rn.t = r0.t /\ (r0.t = "ok" => (rn.v = WrapVN(w, r0.v, n) /\ rn.e = r0.e))
=============================================================================
