------------------------------- MODULE MC_C02 -------------------------------
(***************************************************************************)
(* C02 - operator tables.  Family: every table of 1..MaxRows rows over     *)
(* every associativity and a set of operator spellings that collide on     *)
(* purpose (shared between prefix/infix/postfix rows, prefixes of one      *)
(* another), every kind of operand (literal = cannot fail half-way,        *)
(* reference, compound that can), the table behind a rule reference and    *)
(* directly inside a choice / an option (so that where a failing table     *)
(* leaves the position is observable); inputs: all token strings up to a   *)
(* bound, well-formed and truncated.                                       *)
(* The expected trees come from the Pratt-style definition in PegSem       *)
(* (OpExpr/OpLed); the law checked in every state is the last sentence of  *)
(* the property: reading the tree in order reproduces exactly the consumed *)
(* input.                                                                  *)
(***************************************************************************)
EXTENDS Fam, PegVM

CONSTANTS Tier

one == 49
two == 50
minus == 45
plus == 43
lpar == 40
rpar == 41
semi == 59

OpsChoices == { <<Str(<<minus>>)>>, <<Str(<<plus>>)>>,
                <<Str(<<minus>>), Str(<<plus>>)>>,
                <<Str(<<plus>>), Str(<<plus, plus>>)>> }

Mixfix == <<"mixfix", <<Left(Right(Str(<<lpar>>), Ref("E")), Str(<<rpar>>))>>>>

(* an operator that can fail after consuming: "-" followed by "+" (two tokens, value "+") *)
TwoTok == <<Right(Str(<<minus>>), Str(<<plus>>))>>

(* a second mixfix form that extends the first one: "(" E ")" "+"  - among mixfix rows the longest match wins, too *)
Mixfix2 == <<"mixfix", <<Left(Left(Right(Str(<<lpar>>), Ref("E")), Str(<<rpar>>)), Str(<<plus>>))>>>>

(* a mixfix form that contains an operator table of its own, written inline (two tables in one parse function) *)
MixfixT == <<"mixfix", <<Left(Right(Str(<<lpar>>), <<"optable", Str(<<one>>), << <<"left", <<Str(<<minus>>)>>>> >> >>), Str(<<rpar>>))>>>>

Rows == {<<as, ops>> : as \in {"left", "right", "infix", "prefix", "postfix"}, ops \in OpsChoices}
        \cup {<<as, TwoTok>> : as \in {"left", "prefix", "postfix"}}
        \cup {Mixfix, Mixfix2, MixfixT}

Operands == << Str(<<one>>),                                   \* literal: cannot partially succeed
               Ref("N"),                                       \* rule reference
               Seq2(Str(<<one>>), Opt(Str(<<two>>))) >>        \* compound

TokRest == Rgx(RxStarG(Cls(<<one, two, minus, plus, lpar, rpar, semi>>)))

Table(rs, k) == <<"optable", Operands[k], rs>>

Body(c, t) ==
    CASE c = 0 -> Ref("E")
      [] c = 1 -> Ch2(t, TokRest)                     \* the table itself is an alternative
      [] c = 2 -> Seq2(Opt(t), TokRest)               \* ... an option
      [] c = 3 -> Seq2(Ref("E"), TokRest)

Grammar(c, t) ==
    [rules |-> [start |-> Rule(Body(c, t)), E |-> Rule(t),
                N |-> Rule(Rgx(Cls(<<one, two>>)))],
     ign |-> <<>>, start |-> "start"]

MaxRows == IF Tier = "quick" THEN 2 ELSE 3

Texts == TextSeqUpTo(<<one, minus, plus>>, IF Tier = "quick" THEN 5 ELSE 6)
         \o << <<lpar, one, rpar>>, <<lpar, one, plus, one, rpar, minus, one>>, <<lpar, one>>,
               <<one, plus, lpar, minus, one, rpar>>, <<lpar, lpar, one, rpar, rpar, plus>>,
               <<one, two, plus, one, two>>, <<one, plus, plus, plus, one>>, <<one, semi>>,
               <<minus, semi>>, <<one, plus, semi>>, <<one, plus, plus, one, plus, plus, one>>,
               <<one, minus, one, minus, one, minus, one>>, <<minus, minus, one, plus, plus>>,
               <<lpar, one, rpar, plus, one>>, <<lpar, one, rpar, plus>>, <<lpar, one, rpar, plus, minus, one>>,
               <<lpar, lpar, one, rpar, plus, rpar, plus, one>>, <<lpar, one, rpar, plus, plus, one>>,
               <<one, plus, one, plus, lpar, one, minus>>, <<one, minus, lpar>>, <<one, plus, one, minus, lpar, rpar>>,
               <<one, plus, lpar, one, minus, one, rpar, plus>>, <<minus, one, plus, lpar, one, minus, rpar>> >>

TextsShort == TextSeqUpTo(<<one, minus, plus>>, 5)

VARIABLES rows, opk, ctx, done
vars == <<rows, opk, ctx, done>>

Init == /\ \E n \in 1..MaxRows : rows \in [1..n -> Rows]
        /\ opk \in 1..3
        /\ ctx \in (IF Tier = "quick" THEN {0, 1} ELSE 0..3)
        \* thorough: three rows only with the literal operand behind the reference (bounds the run)
        /\ (Len(rows) = 3 => (opk = 1 /\ ctx \in {0, 1}))
        /\ done = FALSE

G == Grammar(ctx, Table(rows, opk))

Step == /\ ~done
        /\ done' = TRUE
        /\ UNCHANGED <<rows, opk, ctx>>
        /\ EmitCase(G, [prop |-> "C02"], <<"start">>, IF Len(rows) = 3 THEN TextsShort ELSE Texts)

Next == Step

(* ---- law: the tree, read in order, is exactly the consumed input ---- *)
RECURSIVE Flat(_)
Flat(v) ==
    CASE v[1] = "s" -> v[2]
      [] v[1] = "none" -> <<>>
      [] v[1] = "l" -> IF v[2] = <<>> THEN <<>>
                       ELSE Flat(v[2][1]) \o Flat(<<"l", Tail(v[2])>>)
      [] v[1] = "I" -> Flat(v[2]) \o Flat(v[3]) \o Flat(v[4])
      [] v[1] = "P" -> Flat(v[2]) \o Flat(v[3])
      [] v[1] = "Q" -> Flat(v[2]) \o Flat(v[3])

HasMixfix == \E i \in 1..Len(rows) : rows[i][1] = "mixfix" \/ rows[i][2] = TwoTok   \* (or an operator whose value drops a token)

LawFlatten ==
    (done /\ ~HasMixfix) =>      \* (mixfix rows drop their brackets from the tree)
    \A k \in 1..Len(Texts) :
        LET r == EvalEntry(G, "E", Texts[k], 0) IN
        r.t = "ok" => Flat(r.v) = SubSeq(Texts[k], 1, r.e)

\* the table matches iff an operand (after prefix operators) can be read at all
LawExtends ==
    done =>
    \A k \in 1..Len(Texts) :
        LET r == EvalEntry(G, "E", Texts[k], 0) IN
        r.t = "ok" => r.e >= 1

(* ---- mechanism layer: the shunting-yard machine (PegVM!OTLoop) computes the Pratt-style meaning ---- *)
\* (tables of three rows are left to the replay: the machine is evaluated on every table of one or two rows)
\* (the short texts and the hand-picked long ones, in both tiers: all 1 100 texts of the thorough tier cost 8 CPU-hours)
VMTexts == SelectSeq(Texts, LAMBDA t : Len(t) <= 4 \/ t[1] = lpar \/ Len(t) >= 7 \/ (Tier = "quick" /\ Len(t) >= 6))
LawVMRefines ==
    (done /\ Len(rows) <= 2) =>
    \A k \in 1..Len(VMTexts) : VMClauses(G, Table(rows, opk), VMTexts[k]) /\ Refines(G, Ref("start"), VMTexts[k])
=============================================================================
