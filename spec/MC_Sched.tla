------------------------------- MODULE MC_Sched -------------------------------
(***************************************************************************)
(* C18 - all interleavings at callback granularity.  Actors: NP parse      *)
(* calls, each a sequence of K + 1 segments separated by K inline-Python   *)
(* callback points, and one Grammar() construction (a single step).  A     *)
(* schedule is the order in which segments run; TLC enumerates every       *)
(* maximal behaviour and emits its schedule (history variable) so that the *)
(* harness can enforce exactly that order on real threads with a           *)
(* turnstile.  The expected outcome of every call is its outcome in        *)
(* isolation (Packrat!OutcomeIndependent is the model-level statement).    *)
(***************************************************************************)
EXTENDS Naturals, Sequences, TLC, Json

CONSTANTS NP, K

VARIABLES pc, compiled, sched
vars == <<pc, compiled, sched>>

Init == pc = [c \in 1..NP |-> 0] /\ compiled = FALSE /\ sched = <<>>

StepParse(c) == /\ pc[c] <= K
                /\ pc' = [pc EXCEPT ![c] = @ + 1]
                /\ sched' = Append(sched, c)
                /\ UNCHANGED compiled
StepCompile == /\ ~compiled /\ compiled' = TRUE /\ sched' = Append(sched, 0) /\ UNCHANGED pc

Done == compiled /\ \A c \in 1..NP : pc[c] = K + 1
Finish == Done /\ UNCHANGED vars

Next == (\E c \in 1..NP : StepParse(c)) \/ StepCompile \/ Finish

Emitted == Done => PrintT(ToJson([schedule |-> sched]))
=============================================================================
