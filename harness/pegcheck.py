"""Checks that replay grammar cases (spec-computed expectations) into the
real parser generator."""
import engine
import tlc
from common import MachineryFailure


def split_runs(case):
    """TLC emits runs as [entry, text, pos, t, v, end, far]; split into the
    call ([entry, text, pos]) and the expectation ([t, v, end, far])."""
    runs, exps = [], []
    for r in case['runs']:
        runs.append([r[0], r[1], r[2]])
        exps.append(r[3:7])
    case['runs'] = runs
    case['exp'] = exps
    return case


def collect(chk, module, cfg, env=None, timeout_s=1500, label=None, workers=16):
    """Run a family instance in TLC; returns the emitted cases."""
    cases = []

    def got(o):
        if 'g' in o and 'runs' in o:
            o['id'] = len(cases)
            cases.append(split_runs(o))
    r = tlc.run(module, cfg, env=env, on_json=got, timeout_s=timeout_s, workers=workers)
    chk.add_tlc(r, label or cfg)
    if not r.ok:
        raise MachineryFailure('TLC did not complete %s/%s: %s' % (module, cfg, '\n'.join(r.log_tail[-15:])))
    if not cases:
        raise MachineryFailure('TLC emitted no cases for %s/%s' % (module, cfg))
    return cases


def with_oracle(chk, cases, module='Oracle', timeout_s=900):
    """Attach spec-computed expectations to python-generated cases."""
    out, st = tlc.oracle(cases, module=module, timeout_s=timeout_s)
    chk.states += st['distinct']
    chk.transitions += st['states']
    chk.tlc_cmds.append('tlc %s (ndjson cases via IOEnv.CASES), %d cases' % (module, len(cases)))
    if module == 'OracleVM':
        chk.notes['vm_refinement_checked_on_random_cases'] = chk.notes.get('vm_refinement_checked_on_random_cases', 0) + st['in_vm']
    for c in cases:
        c['exp'] = out[c['id']]
    return cases


def drop_ill(chk, cases):
    live = []
    for c in cases:
        runs, exps = [], []
        for r, x in zip(c['runs'], c['exp']):
            if x[0] == 'ill':
                chk.skipped_ill += 1
            else:
                runs.append(r)
                exps.append(x)
        if runs:
            c2 = dict(c)
            c2['runs'] = runs
            c2['exp'] = exps
            live.append(c2)
    return live


def text_of(cps, bm=False):
    try:
        return bytes(cps).decode('latin-1') if bm else ''.join(chr(x) for x in cps)
    except Exception:
        return repr(cps)


def replay(chk, cases, judge=None, tagger=None, hooks=False, sample_every=997, fn='observe_case', timeout_budget=60):
    """Replay cases in the real code and judge every run.
    judge(case, run, exp, obs) -> None | reason;  tagger(case, run, exp, obs, why) -> (tags, obs_sig)"""
    live = drop_ill(chk, cases)
    # vacuity indicator (read it after adding members to a family): grammars none of whose runs is expected to match
    dead = sum(1 for c in live if not any(x[0] == 'ok' and x[2] > r[2] for r, x in zip(c['runs'], c['exp'])))
    chk.notes['grammars_without_a_consuming_match'] = chk.notes.get('grammars_without_a_consuming_match', 0) + dead
    obs = engine.run_real(live, hooks=hooks, fn=fn, timeout_budget=timeout_budget)
    n = 0
    for c in live:
        o = obs.get(c['id'])
        if o is None:
            raise MachineryFailure('no observation for case %r' % c['id'])
        if o['build'][0] == engine.SKIPPED:
            # only after many cases of this family timed out (each confirmed one is reported below)
            chk.notes['cases_skipped_after_timeouts'] = chk.notes.get('cases_skipped_after_timeouts', 0) + 1
            continue
        chk.traces += 1
        if o['build'][0] in ('render-error', 'harness-error'):
            raise MachineryFailure('harness problem on case %r: %r' % (c['id'], o['build']))
        if o['build'][0] != 'ok':
            why = 'Grammar() raised %s' % (o['build'][1:],) if o['build'][0] == 'exc' else 'Grammar() timed out'
            tags, sig = tagger(c, None, None, o['build'], why) if tagger else ((), None)
            chk.count([o['desc']], True)
            chk.violation(why + ' for\n' + (o['desc'] or ''), {'desc': o['desc'], 'g': c['g'], 'cfg': c.get('cfg'),
                          'build': o['build']}, tags, sig)
            continue
        for r, x, y in zip(c['runs'], c['exp'], o['obs']):
            n += 1
            chk.count([o['desc'], r], x[0] == 'ok' or x[3] > r[2])
            why = judge(c, r, x, y) if judge else engine.judge_run(x, y, r[2])
            if n % sample_every == 1:
                chk.sample({'description': o['desc'], 'entry': r[0], 'text': text_of(r[1]), 'pos': r[2],
                            'spec': x[:3], 'observed': y[:3], 'agrees': why is None})
            if why:
                tags, sig = tagger(c, r, x, y, why) if tagger else ((), None)
                chk.violation('%s | grammar: %s | entry %s text %r pos %d | spec %s | observed %s'
                              % (why, (o['desc'] or '').strip().replace('\n', ' ; ')[:400], r[0],
                                 text_of(r[1]), r[2], x, y),
                              {'desc': o['desc'], 'g': c['g'], 'cfg': c.get('cfg'), 'run': r, 'expected': x,
                               'observed': y, 'why': why}, tags, sig)
    return live
