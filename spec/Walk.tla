-------------------------------- MODULE Walk --------------------------------
(***************************************************************************)
(* Mechanism layer for C15: `visit` and `traverse` of the generated        *)
(* runtime (sourcer/translator.py, _main_template) as the explicit-stack   *)
(* loops they are: one iteration of `while stack:` per recursive unfolding *)
(* below.  Stack entries carry the recipe and the identity (path) of the   *)
(* Python object they stand for; `visited` is the set of ids.              *)
(* Checked by TLC against the declarative Objs!Preorder / Objs!Events for  *)
(* every tree of the bounded family (MC_C15).                              *)
(***************************************************************************)
EXTENDS Objs

Rev(s) == [i \in 1..Len(s) |-> s[Len(s) - i + 1]]

(* stack.extend(reversed(children)) : children as <<recipe, path>> *)
KidEntries(t, path) == [i \in 1..Len(Kids(t)) |-> <<Kids(t)[i][2], Append(path, i)>>]

RECURSIVE VisitLoop(_, _, _)
VisitLoop(stack, visited, out) ==
    IF stack = <<>> THEN out
    ELSE LET top == stack[Len(stack)]
             rest == SubSeq(stack, 1, Len(stack) - 1)
             r == Res(top[1], top[2])  t == r[1]  path == r[2]
         IN CASE t[1] \in {"list", "tuple", "dict"} ->           \* containers are expanded, never de-duplicated
                   VisitLoop(rest \o Rev(KidEntries(t, path)), visited, out)
              [] t[1] = "obj" ->
                   IF path \in visited THEN VisitLoop(rest, visited, out)
                   ELSE VisitLoop(rest \o Rev(KidEntries(t, path)), visited \cup {path}, Append(out, path))
              [] OTHER -> VisitLoop(rest, visited, out)

VisitVM(root) == VisitLoop(<< <<root, <<>>>> >>, {}, <<>>)

(* traverse: stack of [parent, field, t, path, fin] *)
TEntry(parent, field, t, path, fin) == <<parent, field, t, path, fin>>

TravKids(t, path) ==
    [i \in 1..Len(Kids(t)) |-> TEntry(path, Kids(t)[i][1], Kids(t)[i][2], Append(path, i), FALSE)]

RECURSIVE TravLoop(_, _, _)
TravLoop(stack, visited, out) ==
    IF stack = <<>> THEN out
    ELSE LET top == stack[Len(stack)]
             rest == SubSeq(stack, 1, Len(stack) - 1)
             r == Res(top[3], top[4])  t == r[1]  path == r[2]
             me == Ident(t, path)
         IN IF top[5]
            THEN TravLoop(rest, visited, Append(out, <<top[1], top[2], me, TRUE>>))
            ELSE LET rest1 == Append(rest, TEntry(top[1], top[2], top[3], top[4], TRUE))
                     out1 == Append(out, <<top[1], top[2], me, FALSE>>)
                 IN \* only containers and objects are remembered; each is expanded once
                    IF IsLeaf(t) \/ path \in visited THEN TravLoop(rest1, visited, out1)
                    ELSE TravLoop(rest1 \o Rev(TravKids(t, path)), visited \cup {path}, out1)

TraverseVM(root) == TravLoop(<< TEntry(<<"root">>, "", root, <<>>, FALSE) >>, {}, <<>>)
=============================================================================
