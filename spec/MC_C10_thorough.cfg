CONSTANTS
  Tier = "thorough"
INIT Init
NEXT Next
INVARIANT LawNesting
CHECK_DEADLOCK FALSE
