------------------------------ MODULE Shapes01 ------------------------------
(* The C01 family as recipes (shared by MC_C01, which replays it into the   *)
(* code, and MC_PegVM, which checks the mechanism layer against it).        *)
EXTENDS Fam

CONSTANTS Tier

R1Body == Seq2(Str(<<a>>), Str(<<b>>))           \* can fail after consuming
R2Body == Star(Str(<<a>>))                       \* always succeeds

\* ("a."i: a case-insensitive literal is still a literal - its characters are not a regular expression)
NotA == Rgx(<<"cat", << <<"la", Cls(<<a>>), FALSE>>, RxStarG(Cls(<<a, b>>)) >>>>)   \* /(?!a)[ab]*/ : nullable by itself, yet it can fail
Leaves == { Str(<<a>>), Str(<<b>>), Str(<<a, b>>), Str(<<>>), StrI(<<a>>), StrI(<<a, 46>>),
            APlus, AStar, BorAB, NotA, FailE, Back(1), PyInt(7), Ref("R1"), Ref("R2") }

(* bytes mode: byte literals, byte strings, byte regexes (the same abstract syntax; the text is a bytes object) *)
\* (0x00: the byte whose value is falsy in Python - never present in these texts, so it never matches)
LeavesB == { <<"byte", a>>, <<"byte", b>>, <<"byte", 0>>, Str(<<a>>), Str(<<a, b>>), Str(<<>>), APlus, AStar, BorAB, FailE, Ref("R1"), Ref("R2") }

SmallLeaves == { Str(<<a>>), Str(<<a, b>>), AStar, Ref("R1"), BorAB }

UForms == {"opt", "star", "plus", "r22", "r12", "r2n", "expect", "not", "skip1", "seq1"}
BForms == {"seq", "left", "right", "choice", "longest", "skip2", "sep", "sept"}

MkU(f, x) ==
    CASE f = "opt" -> Opt(x)  [] f = "star" -> Star(x)  [] f = "plus" -> Plus(x)
      [] f = "r22" -> Rep(x, Nb(2), Nb(2))  [] f = "r12" -> Rep(x, Nb(1), Nb(2))
      [] f = "r2n" -> Rep(x, Nb(2), NoB)    [] f = "expect" -> Expect(x)
      [] f = "not" -> Not(x)  [] f = "skip1" -> Skip1(x)  [] f = "seq1" -> Seq1(x)

MkB(f, x, y) ==
    CASE f = "seq" -> Seq2(x, y)  [] f = "left" -> Left(x, y)  [] f = "right" -> Right(x, y)
      [] f = "choice" -> Ch2(x, y)  [] f = "longest" -> Long2(x, y)  [] f = "skip2" -> Skip2(x, y)
      [] f = "sep" -> SepPlain(x, y)  [] f = "sept" -> SepTrailer(x, y)

(* A shape is a recipe <<k, f, g, l1, l2, l3>>; Build turns it into an expression. *)
(* The family is enumerated by Init over the recipe components, so TLC never      *)
(* materialises the (large) set of expressions.                                   *)
Build(r) ==
    LET k == r[1]  f == r[2]  g == r[3]  l1 == r[4]  l2 == r[5]  l3 == r[6] IN
    CASE k = 0 -> l1
      [] k = 1 -> MkU(f, l1)
      [] k = 2 -> MkB(f, l1, l2)
      [] k = 3 -> MkU(f, MkU(g, l1))
      [] k = 4 -> MkU(f, MkB(g, l1, l2))
      [] k = 5 -> MkB(f, MkU(g, l1), l2)
      [] k = 6 -> MkB(f, l1, MkU(g, l2))
      [] k = 7 -> MkB(f, MkB(g, l1, l2), l3)
      [] k = 8 -> MkB(f, l1, MkB(g, l2, l3))

Dflt == Str(<<a>>)

Recipes(L, S) ==
    (* L: leaves for depth-1 shapes, S: leaves inside depth-2 shapes *)
         {<<0, "", "", l1, Dflt, Dflt>> : l1 \in L}
    \cup {<<1, f, "", l1, Dflt, Dflt>> : f \in UForms, l1 \in L}
    \cup {<<2, f, "", l1, l2, Dflt>> : f \in BForms, l1 \in L, l2 \in L}
    \cup {<<3, f, g, l1, Dflt, Dflt>> : f \in UForms, g \in UForms, l1 \in S}
    \cup {<<4, f, g, l1, l2, Dflt>> : f \in UForms, g \in BForms, l1 \in S, l2 \in S}
    \cup {<<5, f, g, l1, l2, Dflt>> : f \in BForms, g \in UForms, l1 \in S, l2 \in S}
    \cup {<<6, f, g, l1, l2, Dflt>> : f \in BForms, g \in UForms, l1 \in S, l2 \in S}

Recipes3(S) ==
         {<<7, f, g, l1, l2, l3>> : f \in BForms, g \in BForms, l1 \in S, l2 \in S, l3 \in S}
    \cup {<<8, f, g, l1, l2, l3>> : f \in BForms, g \in BForms, l1 \in S, l2 \in S, l3 \in S}

(* operands of the constructor-only forms must not be bare inline Python   *)
(* (those forms read it as an option value, see C19)                        *)
RECURSIVE Renderable(_)
Renderable(x) ==
    CASE x[1] \in {"expect", "not"} -> x[2][1] # "py" /\ Renderable(x[2])
      [] x[1] \in {"skip", "longest"} -> \A i \in 1..Len(x[2]) : x[2][i][1] # "py" /\ Renderable(x[2][i])
      [] x[1] = "sep" -> x[2][1] # "py" /\ x[3][1] # "py" /\ Renderable(x[2]) /\ Renderable(x[3])
      [] x[1] \in {"seq", "choice"} -> \A i \in 1..Len(x[2]) : Renderable(x[2][i])
      [] x[1] \in {"left", "right"} -> Renderable(x[2]) /\ Renderable(x[3])
      [] x[1] \in {"opt", "list"} -> Renderable(x[2])
      [] OTHER -> TRUE

(* continuation contexts: what is tried next shows where it starts *)
Ctx(c, x) ==
    CASE c = 0 -> x
      [] c = 1 -> Ch2(x, Rest)                                   \* next alternative
      [] c = 2 -> Seq2(Opt(x), Rest)                             \* continuation after an option
      [] c = 3 -> Seq2(Expect(x), Rest)                          \* after a lookahead
      [] c = 4 -> Seq2(Not(x), Rest)                             \* after a negative lookahead
      [] c = 5 -> Seq2(Skip1(x), Rest)                           \* after a skip loop
      [] c = 6 -> Seq2(Star(Seq2(Str(<<b>>), x)), Rest)          \* repetition: a failed iteration

CtxIds(r) == IF r[1] <= 2 \/ Tier # "quick" THEN 0..6 ELSE {0, 1}

Grammar(e) == [rules |-> [start |-> Rule(e), R1 |-> Rule(R1Body), R2 |-> Rule(R2Body)],
               ign |-> <<>>, start |-> "start"]

Texts == TextSeqUpTo(<<a, b>>, IF Tier = "quick" THEN 4 ELSE 5)
         \o << <<bigA>>, <<bigA, b>>, <<a, bigA>>, <<b, a, bigA, b>> >>

=============================================================================
