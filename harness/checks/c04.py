"""C04 - ignored patterns are skipped exactly at token boundaries."""
import random

import gen
import pegcheck


def run(chk):
    chk.rule = ('cases = (grammar with ignore declarations, entry, input); TLC (MC_C04) enumerates 16 grammar shapes '
                '(every literal kind and enclosing form, class start rule, look-behind probe) x 3 ignore sets (one '
                'pattern, two patterns, a multi-token ignore rule) x declaration variants (before/after the rules, '
                'named/anonymous, ignore/ignored) x {parse through the start rule, the same body through another '
                'rule} x all inputs up to the bound over an alphabet with ignorable characters; non-trivial = matches '
                'or fails beyond the offset; distinct by (description, entry, input)')
    chk.assumptions += ['rest-capturing regexes and Backtrack(1) >> /./ make the stopping point of each skip observable',
                        'LawLengthen (lengthening ignorable runs changes no value) is model-checked on the members '
                        'that satisfy its side conditions',
                        'mechanism layer: PegVM transcribes how the generated code skips (skip_ignored set on every '
                        'literal, the rule _ignored = Skip(references to the ignored rules), the leading skip spliced into '
                        'the start rule); MC_C04 checks LawVMRefines (that mechanism computes the meaning) on every member '
                        'without classes; OracleVM checks it on the random grammars']
    cases = pegcheck.collect(chk, 'MC_C04', 'MC_C04_' + chk.tier, timeout_s=3000)
    pegcheck.replay(chk, cases, sample_every=9973)
    # seeded random deeper grammars with ignore declarations, judged by the same specification
    rng = random.Random(chk.seed * 7919 + 4)
    n = 600 if chk.tier == 'quick' else 8000
    blank = ['rx', ['plus', gen.cls(' '), True], False]
    dash = gen.S('-')
    comment = ['left', ['right', gen.S('('), ['rx', ['star', gen.cls('ab'), True], False]], gen.S(')')]
    texts = gen.all_texts('ab ', 4) + [gen.T(x) for x in [' a  b ', 'a - b', '(ab) a( )b', 'ab  ab ', '-a-', ' (a)a (b) b', 'a (']]
    rcases = []
    for i in range(n):
        cg = gen.CoreGen(rng, allow_back=(i % 3 == 0))
        g = cg.grammar(3 if i % 2 else 2)
        g['ign'] = rng.choice([[blank], [blank, dash], [blank, comment], [dash, blank]])
        rcases.append({'id': i, 'g': g,
                       'cfg': {'prop': 'C04', 'ign_first': bool(i % 2), 'ign_names': rng.choice([None, ['Blank', 'Junk']])},
                       'runs': [[rng.choice(['start', 'start', 'R1']), t, 0] for t in texts]})
    pegcheck.with_oracle(chk, rcases, module='OracleVM')
    chk.notes['random_grammars'] = len(rcases)
    pegcheck.replay(chk, rcases, sample_every=19997)
