------------------------------- MODULE Modules -------------------------------
(***************************************************************************)
(* Meaning of `grammar B extends A` (C13, and the creation histories of    *)
(* C18): a chain of modules is flattened into one PegSem grammar.          *)
(*                                                                         *)
(* chain : sequence of modules, level 1 = base; module = [rules |-> record *)
(*         name -> rule, ign |-> sequence of ignore expressions]           *)
(* Parsing THROUGH module `top` (1 <= top <= Len(chain)):                  *)
(*   - every rule defined at a level <= top is available;                  *)
(*   - a plain reference R - wherever it is written, also inside an        *)
(*     inherited rule - denotes the most derived definition of R at a      *)
(*     level <= top (late binding);                                        *)
(*   - `super.R` written in the module of level L denotes the definition   *)
(*     of R that module L inherits: the one at the highest level < L;      *)
(*   - the ignore patterns are those of every level <= top.                *)
(* Flat(chain, top) renames rule R of level L to "R@L" accordingly.        *)
(* Nothing in Flat(chain, k) depends on levels > k: creating or using a    *)
(* derived module cannot change a base module (FrameLaw, checked by TLC).  *)
(***************************************************************************)
EXTENDS Fam

Q(r, k) == r \o "@" \o ToString(k)

DefLevels(chain, lo, hi, r) == {k \in lo..hi : r \in DOMAIN chain[k].rules}
HasDef(chain, lo, hi, r) == DefLevels(chain, lo, hi, r) # {}
MaxDef(chain, lo, hi, r) == CHOOSE k \in DefLevels(chain, lo, hi, r) : \A j \in DefLevels(chain, lo, hi, r) : j <= k

RECURSIVE Ren(_, _, _, _)
\* rename the references of expression e written in the module of level L, for parsing through `top`
Ren(e, L, chain, top) ==
    LET R(x) == Ren(x, L, chain, top)
        RS(xs) == [i \in 1..Len(xs) |-> R(xs[i])]
    IN CASE e[1] = "ref" -> IF HasDef(chain, 1, top, e[2]) THEN Ref(Q(e[2], MaxDef(chain, 1, top, e[2]))) ELSE e   \* (parameters are not rule names in the families)
         [] e[1] = "super" -> IF HasDef(chain, 1, L - 1, e[2]) THEN Ref(Q(e[2], MaxDef(chain, 1, L - 1, e[2])))
                              ELSE Ref("?undefined")
         \* super.T(args): a call of the inherited definition of a parameterised rule
         [] e[1] = "scall" -> IF HasDef(chain, 1, L - 1, e[2])
                              THEN <<"call", Q(e[2], MaxDef(chain, 1, L - 1, e[2])),
                                     [i \in 1..Len(e[3]) |-> IF e[3][i][1] = "kw" THEN <<"kw", e[3][i][2], R(e[3][i][3])>>
                                                             ELSE <<"pos", R(e[3][i][2])>>]>>
                              ELSE Ref("?undefined")
         [] e[1] = "call" -> <<"call", IF HasDef(chain, 1, top, e[2]) THEN Q(e[2], MaxDef(chain, 1, top, e[2])) ELSE e[2],
                               [i \in 1..Len(e[3]) |-> IF e[3][i][1] = "kw" THEN <<"kw", e[3][i][2], R(e[3][i][3])>>
                                                       ELSE <<"pos", R(e[3][i][2])>>]>>
         [] e[1] \in {"seq", "choice", "skip", "longest"} -> <<e[1], RS(e[2])>>
         [] e[1] \in {"left", "right"} -> <<e[1], R(e[2]), R(e[3])>>
         [] e[1] \in {"opt", "expect", "not"} -> <<e[1], R(e[2])>>
         [] e[1] = "list" -> <<"list", R(e[2]), e[3], e[4]>>
         [] e[1] = "sep" -> <<"sep", R(e[2]), R(e[3]), e[4]>>
         [] OTHER -> e

RenRule(r, L, chain, top) ==
    IF r.kind = "rule" THEN [r EXCEPT !.body = Ren(@, L, chain, top)]
    ELSE [r EXCEPT !.members = [i \in 1..Len(@) |-> <<@[i][1], @[i][2], Ren(@[i][3], L, chain, top)>>]]

RECURSIVE FlatRules(_, _, _)
FlatRules(chain, top, L) ==
    IF L > top THEN <<>>
    ELSE LET rs == chain[L].rules
             here == [q \in {Q(r, L) : r \in DOMAIN rs} |->
                        RenRule(rs[CHOOSE r \in DOMAIN rs : Q(r, L) = q], L, chain, top)]
         IN here @@ FlatRules(chain, top, L + 1)

RECURSIVE FlatIgn(_, _, _)
\* own patterns first, then the inherited ones
FlatIgn(chain, top, L) ==
    IF L < 1 THEN <<>>
    ELSE [i \in 1..Len(chain[L].ign) |-> Ren(chain[L].ign[i], L, chain, top)] \o FlatIgn(chain, top, L - 1)

(* sname: how the chain spells its start rule ("start" in any capitalisation; one spelling per chain here) *)
FlatS(chain, top, sname) ==
    [rules |-> FlatRules(chain, top, 1),
     ign   |-> FlatIgn(chain, top, top),
     start |-> IF HasDef(chain, 1, top, sname) THEN Q(sname, MaxDef(chain, 1, top, sname)) ELSE ""]

Flat(chain, top) == FlatS(chain, top, "start")

(* entry point R of module `top` *)
EntryName(chain, top, r) == IF HasDef(chain, 1, top, r) THEN Q(r, MaxDef(chain, 1, top, r)) ELSE "?undefined"
=============================================================================
