INIT TInit
NEXT TNext
INVARIANT InvFixedPoint
INVARIANT InvSelfHosting
INVARIANT InvSameLanguage
INVARIANT InvDeterministic
POSTCONDITION TraceAccepted
CHECK_DEADLOCK FALSE
