CONSTANTS
  Tier = "quick"
INIT Init
NEXT Next
INVARIANT LawLeftAssoc
INVARIANT LawLevels
CHECK_DEADLOCK FALSE
