"""Build real parsed-object trees from the recipes of spec/Objs.tla and
project what visit / traverse / transform / == / hash / copy do to them back
into the specification's vocabulary.  Mechanism only."""
import engine

GRAMMAR = '''grammar vgobjs.pkg.lang
class Z {
    pass ""
}
class A {
    x: "a"
}
class A2 {
    x: "a"
}
class B {
    l: "a"
    _r: "a"
}
start = B | A | Z
'''

SHARED = {
    1: ['obj', 'A', [['leaf', 'none']]],
    2: ['list', [['leaf', 'int1'], ['leaf', 'int1']]],
    3: ['obj', 'B', [['shared', 1], ['leaf', 'interned']]],
}


class Builder:
    """One Builder per tree: caches shared structures and distinct-object leaves."""

    def __init__(self, mod, reverse_dicts=False):
        self.mod = mod
        self.reverse_dicts = reverse_dicts     # equal dicts, other insertion order
        self.ident = {}        # id(object) -> identity (path) of compound nodes
        self.leafobj = {}      # (kind, n) -> object
        self.shared = {}
        self.keep = []

    def leaf(self, t):
        kind = t[1]
        if kind == 'none':
            return None
        if kind == 'int1':
            return 1
        if kind == 'interned':
            return 'x'
        key = (kind, t[2])
        if key not in self.leafobj:
            if kind == 'dstr':
                self.leafobj[key] = ''.join(['d', 'd'])          # built at run time: a new object each time
            elif kind == 'bigint':
                self.leafobj[key] = 10 ** 20 + len(self.leafobj) * 0
            else:
                raise ValueError(t)
        return self.leafobj[key]

    def build(self, t, path):
        k = t[0]
        if k == 'leaf':
            return self.leaf(t)
        if k == 'shared':
            n = t[1]
            if n not in self.shared:
                self.shared[n] = self.build(SHARED[n], [0, n])
            return self.shared[n]
        if k == 'obj':
            kids = [self.build(c, path + [i + 1]) for i, c in enumerate(t[2])]
            o = getattr(self.mod, t[1])(*kids)
        elif k == 'list':
            o = [self.build(c, path + [i + 1]) for i, c in enumerate(t[1])]
        elif k == 'tuple':
            o = tuple([self.build(c, path + [i + 1]) for i, c in enumerate(t[1])] + [])
            if not o:
                o = tuple([])
        elif k == 'dict':
            o = {}
            items = [(key, self.build(c, path + [i + 1])) for i, (key, c) in enumerate(t[1])]
            for key, v in (reversed(items) if self.reverse_dicts else items):
                o[key] = v
        else:
            raise ValueError(t)
        self.ident[id(o)] = path
        self.keep.append(o)
        return o

    def ident_of(self, o):
        """Identity in the spec's vocabulary: path for compounds, descriptor for leaves."""
        if o is None:
            return ['leaf', 'none']
        if isinstance(o, (list, tuple, dict)) or hasattr(o, '_fields'):
            return self.ident.get(id(o), ['unknown-object', type(o).__name__])
        if isinstance(o, int) and o == 1:
            return ['leaf', 'int1']
        if isinstance(o, str) and o == 'x':
            return ['leaf', 'interned']
        for (kind, n), v in self.leafobj.items():
            if v is o:
                return ['leaf', kind, n]
        return ['unknown-leaf', repr(o)[:30]]


def expand(o):
    """The plain value of a real object (sharing removed), in the shape of Objs!Expand."""
    if o is None:
        return ['leaf', 'none']
    if isinstance(o, bool):
        return ['leaf', 'bool']
    if isinstance(o, int):
        return ['leaf', 'int1'] if o == 1 else ['leaf', 'bigint'] if o == 10 ** 20 else ['leaf', 'int?', o]
    if isinstance(o, str):
        return ['leaf', 'interned'] if o == 'x' else ['leaf', 'dstr'] if o == 'dd' else ['leaf', 'str?', o]
    if isinstance(o, list):
        return ['list', [expand(x) for x in o]]
    if isinstance(o, tuple) and not hasattr(o, '_fields'):
        return ['tuple', [expand(x) for x in o]]
    if isinstance(o, dict):
        return ['dict', [[k, expand(v)] for k, v in o.items()]]
    if hasattr(o, '_fields') and hasattr(o, '_metadata'):
        return ['obj', type(o).__name__, [expand(getattr(o, f)) for f in type(o)._fields]]
    return ['other', repr(o)[:40]]


_MOD = None


def module():
    global _MOD
    if _MOD is None:
        import sourcer
        _MOD = sourcer.Grammar(GRAMMAR)
    return _MOD
