------------------------------- MODULE MC_C11 -------------------------------
(***************************************************************************)
(* C11 - behaviour does not depend on how the grammar module was produced. *)
(* The configuration lattice as a state space: a module is produced by a   *)
(* sequence of Compile steps under a configuration                          *)
(*   named          : the description carries a `grammar <name>` header     *)
(*   include_source : Grammar(..., include_source=True)                     *)
(*   exec_source    : the emitted _source_code is saved and executed on its *)
(*                    own in a fresh interpreter (only possible when         *)
(*                    include_source holds)                                  *)
(*   compiles       : how many times the description was compiled (1..2)    *)
(* The meaning layer has no configuration parameter: Behaviour(cfg) is      *)
(* PegSem!Outcome of the description, whatever cfg is - the invariant       *)
(* ConfigIndependent states exactly that, and the harness replays every     *)
(* reachable configuration on a feature-covering slice of the grammar       *)
(* families (the expectations come from those families' TLC runs).          *)
(***************************************************************************)
EXTENDS Naturals, TLC, Json

VARIABLES named, include_source, exec_source, compiles, emitted
vars == <<named, include_source, exec_source, compiles, emitted>>

Init == /\ named \in BOOLEAN /\ include_source \in BOOLEAN
        /\ exec_source = FALSE /\ compiles = 1 /\ emitted = FALSE

Recompile == compiles < 2 /\ compiles' = compiles + 1 /\ UNCHANGED <<named, include_source, exec_source, emitted>>
SaveAndExec == include_source /\ ~exec_source /\ exec_source' = TRUE /\ UNCHANGED <<named, include_source, compiles, emitted>>
Emit == /\ ~emitted /\ emitted' = TRUE /\ UNCHANGED <<named, include_source, exec_source, compiles>>
        /\ PrintT(ToJson([named |-> named, include_source |-> include_source, exec_source |-> exec_source,
                          compiles |-> compiles]))

Next == Recompile \/ SaveAndExec \/ Emit

(* the abstract behaviour of the produced module: a function of the description only *)
Behaviour(cfg) == "PegSem!Outcome(description)"
ConfigIndependent ==
    Behaviour([named |-> named, include_source |-> include_source, exec_source |-> exec_source, compiles |-> compiles])
      = Behaviour([named |-> FALSE, include_source |-> FALSE, exec_source |-> FALSE, compiles |-> 1])
=============================================================================
