CONSTANTS
  Tier = "thorough"
INIT Init
NEXT Next
INVARIANT LawShift
CHECK_DEADLOCK FALSE
