"""./check replay <path>: re-run one recorded violating case against /repo."""
import json
import sys

import engine
import realrun


def main(path):
    with open(path) as f:
        v = json.load(f)
    case = v.get('case', {})
    print('property:', v.get('property'))
    print('recorded:', v.get('what'))
    if 'replay_cmd' in case:
        print('re-run with:', case['replay_cmd'])
    if case.get('desc') and case.get('run'):
        realrun.init_worker(hooks=False)
        c = {'id': 0, 'desc': case['desc'], 'g': case.get('g') or {'start': 'start'}, 'cfg': case.get('cfg') or {},
             'runs': [case['run']]}
        o = engine.observe_case(c)
        print('description:\n' + case['desc'])
        print('run:', case['run'])
        print('expected (spec):', case.get('expected'))
        print('observed now   :', o['obs'][0] if o['obs'] else o['build'])
        why = engine.judge_run(case['expected'], o['obs'][0], case['run'][2]) if o['obs'] and case.get('expected') else 'build'
        print('verdict:', 'still violates: %s' % why if why else 'agrees now')
        return 1 if why else 0
    print(json.dumps(case, indent=1)[:4000])
    return 0
