CONSTANTS
  Tier = "thorough"
INIT Init
NEXT Next
INVARIANT LawExpansion
CHECK_DEADLOCK FALSE
