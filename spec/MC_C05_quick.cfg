CONSTANTS
  Tier = "quick"
INIT Init
NEXT Next
INVARIANT LawRebindExercised
INVARIANT LawUseExercised
CHECK_DEADLOCK FALSE
