----------------------------- MODULE OracleVM -----------------------------
(***************************************************************************)
(* Oracle with the mechanism layer switched on: the same service as        *)
(* Oracle.tla (PegSem's result for every run of every case in the ndjson   *)
(* file CASES) and, for the cases that lie in the fragment PegVM           *)
(* transcribes, the invariant VMAgrees: the register machine of the        *)
(* generated code (with the static flags as written today, and the         *)
(* shunting-yard machine for operator tables) ends with PegSem's result.   *)
(* Used for the seeded random families of C01 and C02, so that the         *)
(* refinement is also exercised on deeper grammars and longer inputs than  *)
(* the exhaustive instances (MC_PegVM, MC_C02) reach.                      *)
(***************************************************************************)
EXTENDS PegVM, Json, IOUtils

Cases == ndJsonDeserialize(IOEnv.CASES)

VARIABLES i, done
vars == <<i, done>>

Init == i \in 1..Len(Cases) /\ done = FALSE

Res(c, k) ==
    LET run == c.runs[k]
        r == EvalEntry(c.g, run[1], run[2], run[3])
    IN <<r.t, r.v, r.e, r.far>>

Next == /\ ~done
        /\ done' = TRUE
        /\ i' = i
        /\ LET c == Cases[i] IN
           PrintT(ToJson([id |-> c.id, vm |-> GInVM(c.g), out |-> [k \in 1..Len(c.runs) |-> Res(c, k)]]))

Spec == Init /\ [][Next]_vars

AgreesAt(G, entry, txt, p) ==
    LET s == EvalEntry(G, entry, txt, p)
        r == Run(G, <<"ref", entry>>, txt, p)
    IN s.t = "ill" \/ ( /\ r.st = (s.t = "ok")
                        /\ (r.st => (r.res = s.v /\ r.pos = s.e))
                        /\ (~r.st => r.res[1] # "bad")
                        \* (the start rule of a grammar with ignore declarations is  _ignored >> body : it may fail after skipping)
                        /\ ((~r.st /\ ~CPS(G, G.rules[entry].body) /\ ~(entry = G.start /\ G.ign # <<>>)) => r.pos = p) )

VMAgrees ==
    done => LET c == Cases[i] IN
            GInVM(c.g) => \A k \in 1..Len(c.runs) : AgreesAt(c.g, c.runs[k][1], c.runs[k][2], c.runs[k][3])

=============================================================================
