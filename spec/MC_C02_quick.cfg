CONSTANTS
  Tier = "quick"
INIT Init
NEXT Next
INVARIANT LawFlatten
INVARIANT LawExtends
INVARIANT LawVMRefines
CHECK_DEADLOCK FALSE
