INIT TInit
NEXT TNext
INVARIANT InvFixedPoint
INVARIANT InvSelfHosting
INVARIANT InvSameLanguage
POSTCONDITION TraceAccepted
CHECK_DEADLOCK FALSE
