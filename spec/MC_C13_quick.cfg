CONSTANTS
  Tier = "quick"
INIT Init
NEXT Next
INVARIANT FrameLaw
CHECK_DEADLOCK FALSE
