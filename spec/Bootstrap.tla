------------------------------ MODULE Bootstrap ------------------------------
(***************************************************************************)
(* C12 - the shipped grammar-description parser is a fixed point of the    *)
(* generator.  The bootstrap history as a state machine:                   *)
(*   installed : which generation of the description parser is installed   *)
(*               as sourcer/parser.py (0 = shipped)                        *)
(*   src       : generation -> digest of its source text (generation g+1   *)
(*               is produced by compiling grammar.txt while generation g   *)
(*               is installed); 0 stands for "not produced yet"            *)
(*   selfok    : generations whose parser accepted grammar.txt itself      *)
(*   agree     : set of descriptions on which generations 0 and 1 returned *)
(*               the same tree or rejected at the same position            *)
(*   differ    : set of descriptions on which they did not                 *)
(* Actions: Generate(sha) (compile grammar.txt with the installed parser), *)
(* SelfParse(g, ok), Install(g), Compare(d, same).                         *)
(* The property is the conjunction of the invariants below at the end of   *)
(* the history  Generate . SelfParse(1) . Compare* . Install(1) . Generate.*)
(* Trace_Bootstrap replays the recorded history of a real bootstrap run.   *)
(***************************************************************************)
EXTENDS Naturals, FiniteSets

VARIABLES installed, src, selfok, agree, differ
bvars == <<installed, src, selfok, agree, differ>>

BInit == installed = 0 /\ src = [g \in 0..2 |-> IF g = 0 THEN 1 ELSE 0] /\ selfok = {} /\ agree = {} /\ differ = {}

Generate(sha) ==
    /\ installed < 2 /\ sha # 0
    /\ src[installed + 1] = 0
    /\ src' = [src EXCEPT ![installed + 1] = sha]
    /\ UNCHANGED <<installed, selfok, agree, differ>>

SelfParse(g, ok) ==
    /\ src[g] # 0
    /\ selfok' = IF ok THEN selfok \cup {g} ELSE selfok
    /\ UNCHANGED <<installed, src, agree, differ>>

Install(g) ==
    /\ src[g] # 0 /\ g = installed + 1
    /\ g \in selfok                    \* generate_parser.py only installs a parser that describes itself
    /\ installed' = g
    /\ UNCHANGED <<src, selfok, agree, differ>>

Compare(d, same) ==
    /\ src[1] # 0
    /\ agree' = IF same THEN agree \cup {d} ELSE agree
    /\ differ' = IF same THEN differ ELSE differ \cup {d}
    /\ UNCHANGED <<installed, src, selfok>>

(* the property, once generation 2 exists *)
FixedPoint   == src[2] # 0 => src[2] = src[1]
SelfHosting  == src[2] # 0 => 1 \in selfok
SameLanguage == differ = {}
=============================================================================
