#!/bin/bash
# tools/runall.sh [quick|thorough] [IDs...]: run the checks in sequence, print a summary line each
tier=${1:-quick}; shift
ids=${@:-C01 C02 C03 C04 C05 C06 C07 C08 C09 C10 C11 C12 C13 C14 C15 C16 C17 C18 C19 C20}
cd "$(dirname "$0")/.."
for p in $ids; do
  s=$(date +%s)
  out=$(timeout 7200 ./check $p $tier 2>&1); rc=$?
  e=$(date +%s)
  echo "$p rc=$rc $((e-s))s $(echo "$out" | grep -c '^VIOLATION') viol $(echo "$out" | grep -c '^KNOWN-FINDING') known | $(echo "$out" | tail -1 | cut -c1-160)"
done
