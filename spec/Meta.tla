--------------------------------- MODULE Meta ---------------------------------
(***************************************************************************)
(* The description language as far as C19 talks about it:                  *)
(*  - how unparenthesised operators group.  `grammar.txt` declares         *)
(*      postfix forms tightest ( ? * + {..} ), then  //  /? , then  << >> ,*)
(*      then  <|  |>  where , then  | ; all binary rows left-associative.  *)
(*    Group(items) builds the expression an operator chain denotes by      *)
(*    precedence climbing over that table (the table instance of the       *)
(*    operator-table meaning of PegSem, applied to the language itself).   *)
(*  - the alternative spellings are chosen by the renderer from a spelling *)
(*    vector (see MC_C19); all spellings of one abstract expression denote *)
(*    it by construction - which is exactly what the replay checks.        *)
(* A chain is a sequence  <<operand, op, operand, op, ..., operand>> ;     *)
(* operands are expressions (a postfix form on an operand is part of it).  *)
(***************************************************************************)
EXTENDS Fam

Level(op) ==
    CASE op \in {"//", "/?"} -> 1
      [] op \in {"<<", ">>"} -> 2
      [] op \in {"<|", "|>", "where"} -> 3
      [] op = "|" -> 4

MkBin(op, l, r) ==
    CASE op = "//" -> SepPlain(l, r)
      [] op = "/?" -> SepTrailer(l, r)
      [] op = "<<" -> Left(l, r)
      [] op = ">>" -> Right(l, r)
      [] op = "|>" -> Apply(l, r)
      [] op = "<|" -> ApplyL(l, r)
      [] op = "where" -> Where(l, r)
      [] op = "|" -> Ch2(l, r)

(* reduce, left to right, every operator of level lv in the chain *)
RECURSIVE ReduceLevel(_, _, _)
ReduceLevel(items, lv, acc) ==
    \* acc: the chain reduced so far (ends with an operand); items: rest, starting with an operator (or empty)
    IF items = <<>> THEN acc
    ELSE LET op == items[1]  rhs == items[2]  rest == SubSeq(items, 3, Len(items)) IN
         IF Level(op) = lv
         THEN ReduceLevel(rest, lv, SubSeq(acc, 1, Len(acc) - 1) \o <<MkBin(op, acc[Len(acc)], rhs)>>)
         ELSE ReduceLevel(rest, lv, acc \o <<op, rhs>>)

Group(chain) ==
    LET l1 == ReduceLevel(SubSeq(chain, 2, Len(chain)), 1, <<chain[1]>>)
        l2 == ReduceLevel(SubSeq(l1, 2, Len(l1)), 2, <<l1[1]>>)
        l3 == ReduceLevel(SubSeq(l2, 2, Len(l2)), 3, <<l2[1]>>)
        l4 == ReduceLevel(SubSeq(l3, 2, Len(l3)), 4, <<l3[1]>>)
    IN l4[1]
=============================================================================
