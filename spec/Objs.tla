-------------------------------- MODULE Objs --------------------------------
(***************************************************************************)
(* Parsed-object trees as values with identity (meaning layer for C14-C16) *)
(*                                                                         *)
(* A tree is built from a recipe:                                          *)
(*   <<"leaf", kind>> | <<"leaf", kind, n>>   leaves; `kind` says how      *)
(*        CPython shares the object: "none", "int1" (cached small int),    *)
(*        "interned" (literal string) are ONE object wherever they occur;  *)
(*        <<"leaf", "dstr", n>> / <<"leaf", "bigint", n>> are equal values *)
(*        held by distinct objects (one object per n)                      *)
(*   <<"obj", cls, <<kids>>>>   class instance; cls "Z"/"A"/"B" = arity    *)
(*        0/1/2 with fields <<>>, <<"x">>, <<"l","_r">> (a field name may   *)
(*        begin with an underscore)                                        *)
(*   <<"list", <<kids>>>>, <<"tuple", <<kids>>>>,                          *)
(*   <<"dict", <<<<key, kid>>, ...>>>>                                     *)
(*   <<"shared", k>>     the k-th shared structure (one object, wherever   *)
(*        it is referenced); Shared(k) gives its recipe                    *)
(* The identity of a node is its path from the root (sequence of child     *)
(* positions), or <<0, k>> (0 is never a child position) \o path-inside for nodes of shared structure  *)
(* k, or the leaf descriptor itself for leaves (their identity is not      *)
(* observable beyond their kind).                                          *)
(***************************************************************************)
EXTENDS Integers, Sequences, FiniteSets, TLC

Fields(cls) == CASE cls = "Z" -> <<>> [] cls \in {"A", "A2"} -> <<"x">> [] cls = "B" -> <<"l", "_r">>   \* A2: another class with A's fields

Shared(k) ==
    CASE k = 1 -> <<"obj", "A", << <<"leaf", "none">> >>>>
      [] k = 2 -> <<"list", << <<"leaf", "int1">>, <<"leaf", "int1">> >>>>
      [] k = 3 -> <<"obj", "B", << <<"shared", 1>>, <<"leaf", "interned">> >>>>

IsLeaf(t) == t[1] = "leaf"
IsObj(t) == t[1] = "obj"

(* resolve a reference: <<recipe, identity>> of the node at `t` reached by `path` *)
Res(t, path) == IF t[1] = "shared" THEN <<Shared(t[2]), <<0, t[2]>>>> ELSE <<t, path>>

Ident(t, path) == IF IsLeaf(t) THEN t ELSE path

(* children as sequence of <<field, recipe>> *)
Kids(t) ==
    CASE t[1] = "obj" -> [i \in 1..Len(t[3]) |-> <<Fields(t[2])[i], t[3][i]>>]
      [] t[1] \in {"list", "tuple"} -> [i \in 1..Len(t[2]) |-> <<i - 1, t[2][i]>>]
      [] t[1] = "dict" -> [i \in 1..Len(t[2]) |-> <<t[2][i][1], t[2][i][2]>>]
      [] OTHER -> <<>>

(* ---- visit: every reachable parsed object once, parents first, left to right ---- *)
\* depth-first; `seen` = identities of objects already yielded; returns <<sequence, seen>>
RECURSIVE PreWalk(_, _, _)
RECURSIVE PreKids(_, _, _, _, _)
PreWalk(t0, path0, seen) ==
    LET r == Res(t0, path0)  t == r[1]  path == r[2] IN
    IF IsLeaf(t) THEN <<<<>>, seen>>
    ELSE IF IsObj(t) /\ path \in seen THEN <<<<>>, seen>>
    ELSE LET seen1 == IF IsObj(t) THEN seen \cup {path} ELSE seen
             rest == PreKids(Kids(t), 1, path, seen1, <<>>)
         IN <<(IF IsObj(t) THEN <<path>> ELSE <<>>) \o rest[1], rest[2]>>
PreKids(ks, i, path, seen, acc) ==
    IF i > Len(ks) THEN <<acc, seen>>
    ELSE LET w == PreWalk(ks[i][2], Append(path, i), seen) IN
         PreKids(ks, i + 1, path, w[2], acc \o w[1])

Preorder(root) == PreWalk(root, <<>>, {})[1]

(* ---- traverse: enter/finish events for the root and every field, element, entry ---- *)
\* event: <<parent identity, field, child identity, finished>>; a container or object that
\* was met before is entered and finished again but not expanded again
RECURSIVE EvWalk(_, _, _, _, _)
RECURSIVE EvKids(_, _, _, _, _)
EvWalk(parent, field, t0, path0, seen) ==
    LET r == Res(t0, path0)  t == r[1]  path == r[2]
        me == Ident(t, path)
        enter == <<parent, field, me, FALSE>>
        finish == <<parent, field, me, TRUE>>
    IN IF IsLeaf(t) \/ path \in seen THEN << <<enter, finish>>, seen >>
       ELSE LET rest == EvKids(Kids(t), 1, path, seen \cup {path}, <<>>) IN
            << <<enter>> \o rest[1] \o <<finish>>, rest[2] >>
EvKids(ks, i, path, seen, acc) ==
    IF i > Len(ks) THEN <<acc, seen>>
    ELSE LET w == EvWalk(path, ks[i][1], ks[i][2], Append(path, i), seen) IN
         EvKids(ks, i + 1, path, w[2], acc \o w[1])

Events(root) == EvWalk(<<"root">>, "", root, <<>>, {})[1]

(* ---- equality / hashing (C14): structure only, never identity or metadata ---- *)
LeafVal(t) == IF Len(t) = 2 THEN t[2] ELSE t[2]      \* the kind determines the value; n only the object
RECURSIVE Expand(_)
\* the plain value a recipe denotes (sharing removed)
Expand(t) ==
    CASE t[1] = "shared" -> Expand(Shared(t[2]))
      [] t[1] = "leaf" -> <<"leaf", t[2]>>
      [] t[1] = "obj" -> <<"obj", t[2], [i \in 1..Len(t[3]) |-> Expand(t[3][i])]>>
      [] t[1] \in {"list", "tuple"} -> <<t[1], [i \in 1..Len(t[2]) |-> Expand(t[2][i])]>>
      [] t[1] = "dict" -> <<"dict", [i \in 1..Len(t[2]) |-> <<t[2][i][1], Expand(t[2][i][2])>>]>>

Eq(s, t) == Expand(s) = Expand(t)

(* ---- transform (C16): bottom-up rewrite, occurrence based, fields and lists only ---- *)
\* a callback is a function on expanded objects, given here as a tag:
\*   "id"      identity
\*   "AtoZ"    every A(x) becomes a fresh Z() (replacement without metadata)
\*   "Bswap"   every B(l, r) becomes B(r, l) (a new object)
\*   "Achild"  every A(x) is replaced by its (already transformed) child x
\*   "Zleaf"   every Z() is replaced by the leaf none
\*   "Blist"   every B(l, r) is replaced by the list [l, r]
ApplyCb(cb, v) ==
    IF v[1] # "obj" THEN v
    ELSE CASE cb \in {"id", "Nest"} -> v    \* "Nest": the identity, computed by a transform (other callbacks) run inside the callback
           [] cb = "Acopy" -> v        \* every A(x) is replaced by a NEW, equal A(x): same value, other object
           [] cb = "AtoZ" -> IF v[2] = "A" THEN <<"obj", "Z", <<>>>> ELSE v
           [] cb = "Bswap" -> IF v[2] = "B" THEN <<"obj", "B", <<v[3][2], v[3][1]>>>> ELSE v
           [] cb = "Achild" -> IF v[2] = "A" THEN v[3][1] ELSE v
           [] cb = "Zleaf" -> IF v[2] = "Z" THEN <<"leaf", "none">> ELSE v
           [] cb = "Blist" -> IF v[2] = "B" THEN <<"list", v[3]>> ELSE v

RECURSIVE ApplyCbs(_, _, _)
\* callbacks in the order given; returns <<value, calls>> with calls = sequence of <<cb, argument>>
ApplyCbs(cbs, i, v) ==
    IF i > Len(cbs) THEN <<v, <<>>>>
    ELSE LET w == ApplyCb(cbs[i], v)
             rest == ApplyCbs(cbs, i + 1, w)
         IN <<rest[1], << <<cbs[i], v>> >> \o rest[2]>>

RECURSIVE Xform(_, _)
RECURSIVE XformSeq(_, _, _, _, _)
\* returns <<result (expanded value), call log>>; tuples and dicts are leaves for transform
Xform(t, cbs) ==
    CASE t[1] = "list" ->
           LET r == XformSeq(t[2], 1, cbs, <<>>, <<>>) IN <<<<"list", r[1]>>, r[2]>>
      [] t[1] = "obj" ->
           LET r == XformSeq(t[3], 1, cbs, <<>>, <<>>)
               rebuilt == <<"obj", t[2], r[1]>>
               c == ApplyCbs(cbs, 1, rebuilt)
           IN <<c[1], r[2] \o c[2]>>
      [] OTHER -> <<t, <<>>>>
XformSeq(ks, i, cbs, acc, log) ==
    IF i > Len(ks) THEN <<acc, log>>
    ELSE LET r == Xform(ks[i], cbs) IN XformSeq(ks, i + 1, cbs, Append(acc, r[1]), log \o r[2])

BottomUp(root, cbs) == Xform(Expand(root), cbs)

(* ---- the same rewrite with ORIGINS: which input node each result object stands for ---- *)
\* Every object carries a 4th component: the identity (path) of the input node whose position metadata it must
\* carry, or <<"own">> when a callback returned an object that has metadata of its own.  A parent that is rebuilt
\* because a child changed (_replace copies the metadata), and a replacement object without metadata (the callback
\* chain copies the metadata of the node it replaces), stand for the node they were made from.
RECURSIVE ExpandO(_, _)
ExpandO(t0, path0) ==
    LET r == Res(t0, path0)  t == r[1]  path == r[2] IN
    CASE t[1] = "leaf" -> <<"leaf", t[2]>>
      [] t[1] = "obj" -> <<"obj", t[2], [i \in 1..Len(t[3]) |-> ExpandO(t[3][i], Append(path, i))], path>>
      [] t[1] \in {"list", "tuple"} -> <<t[1], [i \in 1..Len(t[2]) |-> ExpandO(t[2][i], Append(path, i))]>>
      [] t[1] = "dict" -> <<"dict", [i \in 1..Len(t[2]) |-> <<t[2][i][1], ExpandO(t[2][i][2], Append(path, i))>>]>>

ApplyCbO(cb, v) ==
    IF v[1] # "obj" THEN v
    ELSE CASE cb \in {"id", "Nest"} -> v
           [] cb = "Acopy" -> IF v[2] = "A" THEN <<"obj", "A", v[3], <<"own">>>> ELSE v     \* the copy is tagged: metadata of its own
           [] cb = "AtoZ" -> IF v[2] = "A" THEN <<"obj", "Z", <<>>, v[4]>> ELSE v            \* fresh object: inherits the origin
           [] cb = "Bswap" -> IF v[2] = "B" THEN <<"obj", "B", <<v[3][2], v[3][1]>>, v[4]>> ELSE v
           [] cb = "Achild" -> IF v[2] = "A" THEN v[3][1] ELSE v
           [] cb = "Zleaf" -> IF v[2] = "Z" THEN <<"leaf", "none">> ELSE v
           [] cb = "Blist" -> IF v[2] = "B" THEN <<"list", v[3]>> ELSE v

RECURSIVE ApplyCbsO(_, _, _)
ApplyCbsO(cbs, i, v) == IF i > Len(cbs) THEN v ELSE ApplyCbsO(cbs, i + 1, ApplyCbO(cbs[i], v))

RECURSIVE XformO(_, _)
XformO(t, cbs) ==
    CASE t[1] = "list" -> <<"list", [i \in 1..Len(t[2]) |-> XformO(t[2][i], cbs)]>>
      [] t[1] = "obj" -> ApplyCbsO(cbs, 1, <<"obj", t[2], [i \in 1..Len(t[3]) |-> XformO(t[3][i], cbs)], t[4]>>)
      [] OTHER -> t

BottomUpO(root, cbs) == XformO(ExpandO(root, <<>>), cbs)
=============================================================================
