CONSTANTS
  Tier = "thorough"
  Shard = 1
  NShards = 7
INIT Init
NEXT Next
INVARIANT LawSane
INVARIANT LawShift
CHECK_DEADLOCK FALSE
