INIT Init
NEXT Next
INVARIANT ConfigIndependent
CHECK_DEADLOCK FALSE
