"""C12 - the shipped grammar-description parser is a fixed point of the generator."""
import ast
import glob
import hashlib
import json
import os
import random
import re
import shutil
import subprocess
import sys
import tempfile

import gen
import render
import tlc
from common import MachineryFailure

REPO = os.environ.get('VERIF_REPO', '/repo')

STAGE1 = r'''
import json, sys, hashlib
sys.path.insert(0, COPY)
sys.dont_write_bytecode = True
import sourcer
from sourcer import parser as gen0
assert sourcer.__file__.startswith(COPY), sourcer.__file__
desc = open(COPY + '/grammar.txt').read()
out = {}
try:
    g1 = sourcer.Grammar(desc, include_source=True)
    out['gen1_source'] = g1._source_code
except BaseException as e:
    out['generate_error'] = '%s: %s' % (type(e).__name__, str(e)[:300])
    json.dump(out, open(OUT, 'w')); sys.exit(0)
def tree(p, d):
    try:
        return ['tree', repr(p.parse(d))]
    except p.PartialParseError as e:
        return ['partial', [e.last_position.index, e.last_position.line, e.last_position.column]]
    except p.ParseError as e:
        return ['error', [e.position.index, e.position.line, e.position.column]]
    except BaseException as e:
        return ['exc', type(e).__name__, str(e)[:100]]
out['selfparse'] = tree(g1, desc)[0] == 'tree'
out['gen1_again_source'] = None
# the generated text is a function of the description alone, not of what the process compiled before
# (generate_parser.py itself generates twice in one process)
try:
    sourcer.Grammar('start = [Opt("a"), /b+/ | "c"]\nclass K { x: "q" }\n')
    out['gen1_again_source'] = sourcer.Grammar(desc, include_source=True)._source_code
    out['gen1_again_same'] = out['gen1_again_source'] == out['gen1_source']
except BaseException as e:
    out['gen1_again_same'] = '%s: %s' % (type(e).__name__, str(e)[:200])
descs = json.load(open(DESCS))
cmp = []
for d in descs:
    t0, t1 = tree(gen0, d), tree(g1, d)
    cmp.append([t0 == t1, t0[0], t1[0], (t0[1] if t0[0] != 'tree' else hashlib.sha256(t0[1].encode()).hexdigest()[:12]),
                (t1[1] if t1[0] != 'tree' else hashlib.sha256(t1[1].encode()).hexdigest()[:12])])
out['compare'] = cmp
json.dump(out, open(OUT, 'w'))
'''

STAGE2 = r'''
import json, sys
sys.path.insert(0, COPY)
sys.dont_write_bytecode = True
import sourcer
assert sourcer.__file__.startswith(COPY), sourcer.__file__
desc = open(COPY + '/grammar.txt').read()
out = {}
try:
    g2 = sourcer.Grammar(desc, include_source=True)
    out['gen2_source'] = g2._source_code
    out['selfparse'] = bool(g2.parse(desc))
except BaseException as e:
    out['generate_error'] = '%s: %s' % (type(e).__name__, str(e)[:300])
json.dump(out, open(OUT, 'w'))
'''


def grammar_strings_from_python(path):
    out = []
    try:
        tree = ast.parse(open(path).read())
    except SyntaxError:
        return out
    for node in ast.walk(tree):
        if isinstance(node, ast.Call) and getattr(node.func, 'id', getattr(node.func, 'attr', None)) == 'Grammar' and node.args:
            a = node.args[0]
            if isinstance(a, ast.Constant) and isinstance(a.value, str):
                out.append(a.value)
    return out


def repository_descriptions():
    ds = []
    for p in sorted(glob.glob(os.path.join(REPO, 'tests', '*.py')) + glob.glob(os.path.join(REPO, 'examples', '*.py'))):
        ds += grammar_strings_from_python(p)
    for p in sorted(glob.glob(os.path.join(REPO, 'README.md')) + glob.glob(os.path.join(REPO, 'docs', '**', '*.md'), recursive=True)
                    + glob.glob(os.path.join(REPO, 'docs', '**', '*.rst'), recursive=True)):
        try:
            txt = open(p).read()
        except OSError:
            continue
        for m in re.finditer(r"Grammar\(r?('''|\"\"\")(.*?)\1", txt, re.S):
            ds.append(m.group(2))
    ds.append(open(os.path.join(REPO, 'grammar.txt')).read())
    return list(dict.fromkeys(ds))


VOCAB = [',', ';', ':', '=', '=>', '|', '|>', '<|', '>>', '<<', '//', '/?', '?', '*', '+', '(', ')', '[', ']', '{', '}', 'in',
         'let', 'where', 'class', 'ignore', 'ignored', 'override', 'between', 'left', 'mixfix', 'grammar', 'extends', 'pass',
         'requires', '`x`', '"s"', '"s"i', '/r/', 'b"s"', '0x41', '.', '#', '\n', '{2}', '{1,}', 'Name', 'super', 'None', '7']


def corrupt(d, rng):
    toks = re.findall(r'\s+|\w+|[^\w\s]', d)
    if len(toks) < 3:
        return d
    i = rng.randrange(len(toks))
    k = rng.random()
    if k < 0.5:
        # another token of the description language in place of (or next to) a token
        if rng.random() < 0.5 or toks[i].isspace():
            toks.insert(i, rng.choice(VOCAB))
        else:
            toks[i] = rng.choice(VOCAB)
        return ''.join(toks)
    k = rng.random()
    if k < 0.4:
        del toks[i]
    elif k < 0.7:
        toks.insert(i, toks[i])
    else:
        j = rng.randrange(len(toks))
        toks[i], toks[j] = toks[j], toks[i]
    return ''.join(toks)


def run_stage(copy, script, out, extra, hashseed=None):
    code = 'COPY = %r\nOUT = %r\n' % (copy, out) + extra + script
    env = {k: v for k, v in os.environ.items() if k not in ('SOURCER_VERIF', 'PYTHONPATH')}
    env['PYTHONDONTWRITEBYTECODE'] = '1'
    if hashseed is not None:
        env['PYTHONHASHSEED'] = str(hashseed)
    p = subprocess.run([sys.executable, '-c', code], capture_output=True, text=True, timeout=1200, env=env, cwd=copy)
    if p.returncode != 0 or not os.path.exists(out):
        raise MachineryFailure('bootstrap stage failed: %s' % (p.stderr or '')[-800:])
    return json.load(open(out))


def run(chk):
    chk.rule = ('cases = grammar descriptions parsed by generation 0 (shipped parser.py) and generation 1 (compiled from '
                'grammar.txt by the current code) in a scratch copy of the working tree, plus the generation steps '
                'themselves (generate, self-parse, install, generate again); descriptions = every Grammar(...) string of '
                'tests/, examples/, README and docs, grammar.txt, seeded random grammars rendered in random spellings, and '
                'corrupted variants (token deleted / duplicated / swapped); the recorded history is validated by TLC '
                'against Trace_Bootstrap (FixedPoint: gen2 source = gen1 source; SelfHosting; SameLanguage: same tree or '
                'same error position for every description); non-trivial = description on which a tree or an error '
                'position was compared; distinct by description text')
    chk.assumptions += ['trees are compared by repr, rejections by error class and index',
                        'Bootstrap.tla is a thin model (history + three invariants); the weight is the recorded execution']
    r = tlc.run('MC_Bootstrap', 'MC_Bootstrap', timeout_s=300, workers=4)
    chk.add_tlc(r, 'MC_Bootstrap')
    rng = random.Random(chk.seed * 7919 + 12)
    descs = repository_descriptions()
    nrepo = len(descs)
    nrand = 150 if chk.tier == 'quick' else 1500
    for i in range(nrand):
        cg = gen.CoreGen(rng, bytes_mode=(i % 5 == 4))
        g = cg.grammar(3)
        st = render.Style(variant=rng.choice([0, 1, 2]), rng=random.Random(i), definer=rng.choice(['=', ':', '=>', 'mix']),
                          sep=rng.choice(['\n', ';']), comments=rng.random() < 0.3, parens=rng.random() < 0.3,
                          break_ops=rng.random() < 0.3)
        descs.append(render.grammar(g, st, bm=(i % 5 == 4)))
    # identifiers that merely start with a word of the description language, in every naming role
    words = ['let', 'in', 'where', 'class', 'between', 'ignore', 'ignored', 'override', 'pass', 'requires', 'grammar',
             'extends', 'left', 'right', 'infix', 'prefix', 'postfix', 'mixfix', 'True', 'False', 'None', 'super', 'kw']
    for w in words:
        for nm in (w + 'ter', w + 'X', w + '_1', w.upper() + 'x'):
            descs.append('start = %s\n%s = "a"\n' % (nm, nm))
            descs.append('class K {\n    %s: "a"\n    other: "b"\n}\n' % nm)
            descs.append('class K {\n    let %s: "a"\n    other: "b"\n}\n' % nm)
            descs.append('start = let %s = "a" in `%s`\n' % (nm, nm))
            descs.append('T(%s) = %s\nstart = T("a")\n' % (nm, nm))
            descs.append('start = "a" %s "b"\n' % nm)
    # long lines with one stray token far to the right (every window of the abbreviated error excerpt)
    longrule = 'start = ' + ' | '.join('"alt%02d"' % k for k in range(26)) + '\n'
    for line2 in ('', 'Next = "x"\n'):
        for k in range(40, len(longrule) - 1, 4):
            for tok in (')', ']', '}'):
                descs.append(longrule[:k] + tok + longrule[k:] + line2)
    # white space that the description language does not skip itself, after the last token (no line break in between)
    for d0 in ('A = "a"', 'start = [A, B]\nA = "a"\nB = /b+/', 'class K { x: "a" }', '"a" | "b"'):
        for ws in ('\x0c', '\x0b', '\xa0', '\u2003', '\x1c', ' \x0c', '\t\x0b ', '\x0c\n', '\n\x0c'):
            descs.append(d0 + ws)
            descs.append(ws + d0)
    for ws in ('\x0c', '\x0b', '\r', '\x1c', '\x85', '\u2028'):
        descs.append('Foo = "a"\n' + ws + '\nBar = = "b"\n')
        descs.append('Foo = "a"' + ws + '\nBar = "b" )\n')
    base = list(descs)
    for d in base:
        for _ in range(10 if chk.tier == 'quick' else 40):
            descs.append(corrupt(d, rng))
    descs = list(dict.fromkeys(descs))
    copy = tempfile.mkdtemp(prefix='verif-bootstrap-')
    events = []
    try:
        shutil.copytree(os.path.join(REPO, 'sourcer'), os.path.join(copy, 'sourcer'),
                        ignore=shutil.ignore_patterns('__pycache__'))
        shutil.copy(os.path.join(REPO, 'grammar.txt'), copy)
        dpath = os.path.join(copy, 'descs.json')
        json.dump(descs, open(dpath, 'w'))
        s1 = run_stage(copy, STAGE1, os.path.join(copy, 'stage1.json'), 'DESCS = %r\n' % dpath)
        if 'generate_error' in s1:
            chk.count(['generate', 1], True)
            chk.violation('compiling grammar.txt with the current code failed: %s' % s1['generate_error'], {'stage': 1})
            return
        src1 = s1['gen1_source']
        sha1 = int(hashlib.sha256(src1.encode()).hexdigest()[:7], 16) + 1
        events.append({'ev': 'generate', 'from': 0, 'sha': sha1})
        events.append({'ev': 'selfparse', 'gen': 1, 'ok': bool(s1['selfparse'])})
        ndiff = 0
        for i, (d, c) in enumerate(zip(descs, s1['compare'])):
            events.append({'ev': 'compare', 'd': i + 1, 'same': bool(c[0])})
            chk.count([d], True)
            chk.traces += 1
            if not c[0]:
                ndiff += 1
                chk.violation('generation 0 and generation 1 read a description differently: gen0 %s %s, gen1 %s %s | %s'
                              % (c[1], c[3], c[2], c[4], d.strip().replace('\n', ' ; ')[:300]),
                              {'description': d, 'gen0': [c[1], c[3]], 'gen1': [c[2], c[4]]})
            elif len(chk.samples) < 3 and i in (0, nrepo + 3, len(base) + 5):
                chk.sample({'description': d[:300], 'gen0': [c[1], c[3]], 'gen1': [c[2], c[4]]})
        if s1.get('gen1_again_source') is not None:
            events.append({'ev': 'regenerate', 'from': 0,
                           'sha': int(hashlib.sha256(s1['gen1_again_source'].encode()).hexdigest()[:7], 16) + 1})
        chk.count(['gen1 again in the same process'], True)
        if s1.get('gen1_again_same') is not True:
            chk.violation('compiling grammar.txt a second time in the same process (after another grammar) does not reproduce '
                          'the source text of generation 1: %s' % (s1.get('gen1_again_same'),), {'stage': 1})
        if not s1['selfparse']:
            chk.violation('the regenerated parser does not accept grammar.txt itself', {'stage': 1})
        else:
            # install generation 1 the way generate_parser.py does, regenerate in a fresh interpreter
            with open(os.path.join(copy, 'sourcer', 'parser.py'), 'w') as f:
                f.write('# Generated by ../generate_parser.py\n')
                f.write(src1)
            events.append({'ev': 'install', 'gen': 1})
            s2 = run_stage(copy, STAGE2, os.path.join(copy, 'stage2.json'), '')
            if 'generate_error' in s2:
                chk.violation('regenerating with the installed generation 1 failed: %s' % s2['generate_error'], {'stage': 2})
            else:
                src2 = s2['gen2_source']
                sha2 = int(hashlib.sha256(src2.encode()).hexdigest()[:7], 16) + 1
                events.append({'ev': 'generate', 'from': 1, 'sha': sha2})
                events.append({'ev': 'selfparse', 'gen': 2, 'ok': bool(s2.get('selfparse'))})
                chk.count(['gen2 == gen1'], True)
                # a regeneration is a fresh interpreter: the text does not depend on its string-hash seed either
                for hs in (1, 2, 3, 4, 5):
                    sx = run_stage(copy, STAGE2, os.path.join(copy, 'stage2_%d.json' % hs), '', hashseed=hs)
                    srcx = sx.get('gen2_source')
                    if srcx is not None:
                        events.append({'ev': 'regenerate', 'from': 1,
                                       'sha': int(hashlib.sha256(srcx.encode()).hexdigest()[:7], 16) + 1})
                    if srcx != src2:
                        chk.violation('regenerating in an interpreter with PYTHONHASHSEED=%d gives another source text than '
                                      'with PYTHONHASHSEED=%s' % (hs, os.environ.get('PYTHONHASHSEED')), {'stage': 2, 'hashseed': hs})
                        break
                if src2 != src1:
                    a, b = src1.split('\n'), src2.split('\n')
                    k = next((i for i, (x, y) in enumerate(zip(a, b)) if x != y), min(len(a), len(b)))
                    chk.violation('generation 2 differs from generation 1 at line %d: %r vs %r'
                                  % (k + 1, a[k][:120] if k < len(a) else None, b[k][:120] if k < len(b) else None),
                                  {'line': k + 1})
                chk.notes['gen1_sha256'] = hashlib.sha256(src1.encode()).hexdigest()
                chk.notes['gen2_sha256'] = hashlib.sha256(src2.encode()).hexdigest()
                shipped = open(os.path.join(REPO, 'sourcer', 'parser.py')).read()
                chk.notes['gen1_equals_shipped_text'] = shipped.split('\n', 1)[-1] == src1
        # the recorded history goes through TLC
        tpath = os.path.join(copy, 'trace.ndjson')
        with open(tpath, 'w') as f:
            for e in events:
                f.write(json.dumps(e) + '\n')
        got = {}

        def line(s):
            m = re.search(r'"?TRACE-CONSUMED"?, (\d+), (\d+)', s)
            if m:
                got['c'], got['t'] = int(m.group(1)), int(m.group(2))
        try:
            r = tlc.run('Trace_Bootstrap', 'Trace_Bootstrap', env={'TRACE': tpath}, workers=1, timeout_s=900, on_line=line)
            chk.add_tlc_soft = None
            chk.states += r.distinct
            chk.transitions += r.states
            verdict_ok = r.violation is None and got.get('c') == got.get('t') == len(events)
            why = r.violation
        except tlc.TLCError as e:
            verdict_ok = False
            why = str(e)[:400]
            if 'c' not in got:
                raise MachineryFailure('Trace_Bootstrap failed to run: %s' % why)
        chk.notes['history_events'] = len(events)
        chk.notes['descriptions'] = {'repository': nrepo, 'random': nrand, 'total_with_corrupted': len(descs)}
        if not verdict_ok and not chk.n_violations:
            chk.violation('the recorded bootstrap history is not a behaviour of Bootstrap satisfying C12: %s (consumed %s of %s)'
                          % ((why or '')[:300], got.get('c'), got.get('t')), {'events_tail': events[-5:]})
        if verdict_ok and chk.n_violations:
            raise MachineryFailure('harness and TLC disagree about the bootstrap history')
    finally:
        shutil.rmtree(copy, ignore_errors=True)
