CONSTANTS
  Shas = {5, 6}
INIT BInit
NEXT Next
INVARIANT TypeOK
INVARIANT OnlySelfHostingInstalled
CHECK_DEADLOCK FALSE
