------------------------------ MODULE ExcerptVM ------------------------------
(***************************************************************************)
(* Mechanism layer for C09: `_extract_excerpt` / `_caret_at`               *)
(* (sourcer/translator.py, _main_template) transcribed over an abstract    *)
(* text: the erroneous line starts at absolute offset S, has L characters  *)
(* and is followed by a line break iff ~last.  The error is at column col  *)
(* (1-based), i.e. at absolute offset pos = S + col - 1 < S + L.           *)
(* An excerpt is the sequence of what its first line displays: absolute    *)
(* offsets of text characters, or -1 for characters of the "... " / " ..." *)
(* markers; `caret` is the number of blanks before the ^.                  *)
(*                                                                         *)
(* Acceptance relation (what C09 states): the displayed character above    *)
(* the caret is the character at `pos`, and no displayed offset holds a    *)
(* line break (offset S + L, or any offset outside the line).              *)
(* CutEnd is the constant of the "chop off the start" regime test          *)
(* (`end - pos < CutEnd`): 42 in the repaired code; with the value 40 of   *)
(* the original code TLC exhibits the window end - pos \in {40, 41}.       *)
(***************************************************************************)
EXTENDS Integers, Sequences

CONSTANTS CutEnd

Marker == -1
Slice(lo, hi) == [i \in 1..(IF hi > lo THEN hi - lo ELSE 0) |-> lo + i - 1]     \* text[lo:hi] as offsets
Dots == <<Marker, Marker, Marker, Marker>>

(* the four regimes; `total` = length of the whole text *)
Excerpt(S, L, col, last, total) ==
    LET pos   == S + col - 1
        start == pos - (col - 1)
        \* end: first line break at or after pos + 1, else len(text)
        end   == IF last THEN total ELSE S + L
    IN IF end - start < 96
       THEN [line |-> Slice(start, end), caret |-> col - 1, regime |-> 1]
       ELSE IF col < 60
       THEN [line |-> Slice(start, start + 90) \o Dots, caret |-> col - 1, regime |-> 2]
       ELSE IF end - pos < CutEnd
       THEN [line |-> Dots \o Slice(end - 90, end), caret |-> pos - (end - 90) + 4, regime |-> 3]
       ELSE [line |-> Dots \o Slice(pos - 42, pos + 42) \o Dots, caret |-> 42 + 4, regime |-> 4]

Accept(S, L, col, last, total, x) ==
    LET pos == S + col - 1 IN
    /\ x.caret + 1 <= Len(x.line)
    /\ x.line[x.caret + 1] = pos                                   \* the caret stands under text[pos]
    /\ \A i \in 1..Len(x.line) : x.line[i] = Marker \/ (x.line[i] >= S /\ x.line[i] < S + L)   \* one line only
=============================================================================
