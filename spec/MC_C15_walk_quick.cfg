CONSTANTS
  Tier = "quick"
  Mode = "walk"
INIT Init
NEXT Next
INVARIANT VisitRefines
INVARIANT TraverseRefines
INVARIANT EventsBalanced
INVARIANT PreorderOnce
INVARIANT IdentityTransform
INVARIANT OriginsConsistent
CHECK_DEADLOCK FALSE
