"""C19 - alternative spellings of the grammar language are interchangeable."""
import pegcheck
import render


def operand_text(x):
    """An operand of an unparenthesised chain, itself without parentheses."""
    k = x[0]
    if k in ('str', 'ref', 'py'):
        return render.expr(x)
    if k == 'opt':
        return operand_text(x[1]) + '?'
    if k == 'list':
        lo, hi = x[2], x[3]
        if lo[0] == 'none' and hi[0] == 'none':
            return operand_text(x[1]) + '*'
        if lo == ['n', 1] and hi[0] == 'none':
            return operand_text(x[1]) + '+'
    raise ValueError('unexpected chain operand %r' % (x,))


def chain_text(ch):
    parts = []
    for i, item in enumerate(ch):
        parts.append(item if i % 2 else operand_text(item))
    return ' '.join(parts)


def run(chk):
    chk.rule = ('cases = (abstract grammar, spelling or operator chain, input); TLC (MC_C19) enumerates (a) parent/child '
                'pairs of the forms that have two spellings x five spelling vectors (all operator forms; all constructor '
                'forms; mixed per node; = : => ; newline vs ";"; comments; redundant parentheses; line breaks around '
                'operators; bare expression vs start =) and (b) unparenthesised chains of 2-3 binary operators of every '
                'precedence row with postfix forms on the operands, whose denoted expression is Meta!Group(chain); the '
                'harness renders the spelling / the chain text and the outcome must equal PegSem on the abstract '
                'expression; non-trivial = matching run; distinct by (description, input)')
    chk.assumptions += ['Meta!Group is precedence climbing over the rows written in grammar.txt (postfix; // /?; << >>; '
                        '<| |> where; |; all left); LawLeftAssoc/LawLevels are model-checked',
                        'constructor forms with bare inline-Python operands are not in the family (the property excepts them)']
    cases = pegcheck.collect(chk, 'MC_C19', 'MC_C19_' + chk.tier, timeout_s=3000)
    nchain = 0
    for c in cases:
        cfg = c.get('cfg') or {}
        if cfg.get('part') == 'chain':
            nchain += 1
            c['desc'] = 'start = %s\nR = ("ba" | "b")\n' % chain_text(cfg['chain'])
    import json
    nbare = 0
    for c in cases:
        st = (c.get('cfg') or {}).get('style') or {}
        if st.get('bare_start') and '["ref", "R"]' not in json.dumps(c['g']['rules']['start']):
            # an unreferenced rule is dropped so that the description can be the bare expression alone
            for extra in ('R', 'K', 'L', 'T', 'U', 'V'):
                c['g']['rules'].pop(extra, None)
            keep = [i for i, r in enumerate(c['runs']) if r[0] == 'start']
            c['runs'] = [c['runs'][i] for i in keep]
            c['exp'] = [c['exp'][i] for i in keep]
            nbare += 1
    # a bare expression is the rule `start`: it can also be entered as start.parse
    via = []
    for c in cases:
        st = (c.get('cfg') or {}).get('style') or {}
        if st.get('bare_start') and 'R' not in c['g']['rules'] and len(via) < 400:
            c2 = dict(c, id=len(cases) + len(via))
            c2['cfg'] = dict(c.get('cfg') or {}, via_rule=True)
            via.append(c2)
    cases += via
    chk.notes['bare_expression_cases_entered_through_start_parse'] = len(via)
    chk.notes['bare_expression_cases'] = nbare
    chk.notes['chain_cases'] = nchain
    chk.notes['spelling_cases'] = len(cases) - nchain
    pegcheck.replay(chk, cases, sample_every=3989)
