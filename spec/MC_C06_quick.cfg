CONSTANTS
  Tier = "quick"
INIT Init
NEXT Next
INVARIANT LawExpansion
CHECK_DEADLOCK FALSE
