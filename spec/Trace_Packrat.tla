---------------------------- MODULE Trace_Packrat ----------------------------
(***************************************************************************)
(* Trace validation: events recorded from the real `_run` driver (hook H1, *)
(* SOURCER_VERIF=1) and from hook-free probes must form a behaviour of     *)
(* Packrat.  Every logged field is bound to the model state, so the search *)
(* is linear in the length of the trace.  The file named by the            *)
(* environment variable TRACE holds one JSON event per line; calls of      *)
(* several threads may be interleaved in it (each event carries its call   *)
(* id c).                                                                  *)
(*                                                                         *)
(* A rejected trace means some event is not enabled in the specification:  *)
(*   push of a key that is already memoised or already on the stack        *)
(*        -> a rule body evaluated twice at one position (C07)             *)
(*   hit with a result differing from what this call stored, or of a key   *)
(*        this call never stored -> lost identity / leakage between calls  *)
(*   ret that does not match the top of the stack, end with a non-empty    *)
(*        stack, host stack depth changing between events (C17), ...       *)
(***************************************************************************)
EXTENDS Packrat, Json, IOUtils

Trace == ndJsonDeserialize(IOEnv.TRACE)

VARIABLES l,          \* next line of the trace
          pbodies     \* probe traces: (rule, pos) pairs evaluated in the current probed call

tvars == <<stack, memo, last, evals, host, finished, l, pbodies>>

KeyOf(e) == IF e.plain THEN <<e.rule, e.pos>> ELSE <<e.rule, e.pos, e.k>>
ResOf(e) == <<e.st, e.e, e.rid>>

TInit == PInit /\ l = 1 /\ pbodies = {}

IsEvent(name) == l <= Len(Trace) /\ Trace[l].ev = name /\ l' = l + 1

E == Trace[l]

(* Long traces are validated in projection: the harness keeps only the events of a few  *)
(* rules (a projection of a Packrat behaviour onto a subset of keys is again a Packrat   *)
(* behaviour); such events carry the field "proj" and their logged stack depth, which    *)
(* counts the dropped frames too, is not compared.                                       *)
DepthOK(n) == ("proj" \in DOMAIN E) \/ E.d = n

TBegin == /\ IsEvent("begin")
          /\ Begin(E.c, KeyOf(E), E.host)
          /\ E.d = 1
          /\ UNCHANGED pbodies

TPush  == /\ IsEvent("push")
          /\ Push(E.c, KeyOf(E), E.host)
          /\ E.host = host[E.c]                      \* trampolining: host stack depth constant
          /\ DepthOK(Len(stack'[E.c]))
          /\ UNCHANGED pbodies

THit   == /\ IsEvent("hit")
          /\ Hit(E.c, KeyOf(E), ResOf(E), E.host)
          /\ E.host = host[E.c]
          /\ DepthOK(Len(stack[E.c]))
          /\ UNCHANGED pbodies

TRet   == /\ IsEvent("ret")
          /\ Ret(E.c, KeyOf(E), ResOf(E), E.host)
          /\ E.host = host[E.c]
          /\ DepthOK(Len(stack'[E.c]))
          /\ UNCHANGED pbodies

TEnd   == /\ IsEvent("end")
          /\ End(E.c, ResOf(E))
          /\ E.host = host[E.c]
          /\ UNCHANGED pbodies

TAbort == /\ IsEvent("abort")
          /\ Abort(E.c)
          /\ UNCHANGED pbodies

(* hook-free probes (inline Python in every rule body reports rule and position) *)
TPBegin == IsEvent("pbegin") /\ pbodies' = {} /\ UNCHANGED pvars
TPBody  == /\ IsEvent("body")
           /\ <<E.rule, E.pos>> \notin pbodies       \* else: the body ran twice at this position
           /\ pbodies' = pbodies \cup {<<E.rule, E.pos>>}
           /\ UNCHANGED pvars
TPEnd   == /\ IsEvent("pend")
           /\ Cardinality(pbodies) <= E.bound        \* rules x (input length + 1)
           /\ pbodies' = {} /\ UNCHANGED pvars

TNext == TBegin \/ TPush \/ THit \/ TRet \/ TEnd \/ TAbort \/ TPBegin \/ TPBody \/ TPEnd

TraceSpec == TInit /\ [][TNext]_tvars

InvMemoOwn == MemoOwn
InvStackSane == StackSane
InvNothingLost == NothingLost

(* all lines consumed <=> accepted; the harness reads the reached line from the output *)
TraceAccepted ==
    LET n == TLCGet("stats").diameter - 1 IN
    /\ PrintT(<<"TRACE-CONSUMED", n, Len(Trace)>>)
    /\ n = Len(Trace)
=============================================================================
