CONSTANTS
  NR = 4
  NC = 2
  MaxReq = 2
INIT Init
NEXT Next
INVARIANT InvMemoOwn
INVARIANT InvStackSane
INVARIANT InvNothingLost
INVARIANT InvBound
INVARIANT OutcomeIndependent
PROPERTY AtMostOnce
PROPERTY Isolation
CHECK_DEADLOCK FALSE
