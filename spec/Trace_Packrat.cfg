INIT TInit
NEXT TNext
INVARIANT InvMemoOwn
INVARIANT InvStackSane
INVARIANT InvNothingLost
POSTCONDITION TraceAccepted
CHECK_DEADLOCK FALSE
