"""C17 - nesting depth never changes meaning or exhausts the Python stack."""
import engine
import gen
import pegcheck
import realrun
import tracecheck
from common import MachineryFailure

HOOKS = True
T = gen.T

DEEP = [
    # (name, description, builder of input, expected-shape checker)
    ('plain rule', 'start = P\nP = ("(" >> P << ")") | "a"\n'),
    ('template', 'start = N("a")\nN(p) = ("(" >> N(p) << ")") | p\n'),
    ('class', 'start = B\nclass B {\n  open: "("\n  inner: B | "a"\n  close: ")"\n}\n'),
    ('sequence', 'start = S\nS = ["(", S | "a", ")"]\n'),
    # a deeply nested VALUE bound by let and mentioned inside code that is spilled into a helper function
    ('letdeep', 'start = let x = S in ' + '[' * 22 + '`x`' + ']' * 22 + '\nS = ["(", S | "a", ")"]\n'),
    # an instance that contains all the deeper ones is passed on as an argument value (it becomes part of a memo key)
    ('classarg', 'start = B\nclass B {\n  open: "("\n  inner: B | "a"\n  tag: Tag(inner)\n  close: ")"\n}\nTag(v) = "" >> `0`\n'),
    # layers that nest as conditionals in the generated code (a chain of lets whose bound expressions can fail)
    ('letchain', 'start = ' + ''.join('let x%d = "(" in ' % i for i in range(130)) + '[`x0`, S]' + '\nS = ["(", S | "a", ")"]\n'),
    ('letset', 'start = let x = (S |> `lambda v_: {str(v_)}`) in ' + '[' * 22 + '`sorted(x)`' + ']' * 22 + '\nS = /[()a]+/\n'),
]


def deep_worker(case):
    """Parse brackets nested case['n'] deep; report the shape of the result iteratively."""
    import sourcer
    import sourcer_verif_rt as rt
    n = case['n']
    try:
        mod = sourcer.Grammar(case['desc'])
    except BaseException as e:  # noqa
        return {'id': case['id'], 'desc': case['desc'], 'build': ['ok'], 'obs': ['exc', 'Grammar(): ' + type(e).__name__, str(e)[:200]],
                'events': []}
    text = '(' * n + 'a' + ')' * n
    if case['kind'] in ('class', 'classarg', 'sequence', 'letdeep', 'letset'):
        text = '(' * n + '(a)' + ')' * n
    if case['kind'] == 'letchain':
        text = '(' * 130 + '(' * n + '(a)' + ')' * n
    rt.drain()
    rt.enable(bool(case.get('trace')))
    try:
        with realrun.timeout(120):
            try:
                v = mod.parse(text)
                shape = ['ok']
                d = 0
                if case['kind'] in ('letdeep', 'letset'):
                    w = 0
                    while isinstance(v, list) and len(v) == 1:     # the 22 transparent layers
                        v = v[0]
                        w += 1
                    shape.append(w)
                    if case['kind'] == 'letset':
                        v = 'a' if v == text else v
                if case['kind'] == 'letchain':
                    shape.append(v[0])
                    v = v[1]
                while True:
                    if case['kind'] in ('class', 'classarg') and type(v).__name__ == 'B':
                        v = v.inner
                        d += 1
                    elif case['kind'] in ('sequence', 'letdeep', 'letchain') and isinstance(v, list) and len(v) == 3:
                        v = v[1]
                        d += 1
                    else:
                        break
                shape += [d, v if isinstance(v, str) else type(v).__name__]
            except mod.InputError as e:
                shape = ['input-error', str(e)[:100]]
    except realrun.CaseTimeout:
        shape = ['timeout']
    except RecursionError as e:
        shape = ['exc', 'RecursionError', str(e)[:100]]
    except BaseException as e:  # noqa
        shape = ['exc', type(e).__name__, str(e)[:200]]
    finally:
        rt.enable(False)
        events = rt.drain()
    return {'id': case['id'], 'desc': case['desc'], 'build': ['ok'], 'obs': shape, 'events': events}


engine.register('deep_worker', deep_worker)


def run(chk):
    chk.rule = ('cases = (grammar, input): TLC (MC_C17) enumerates inner expression (literal, rule reference, literal '
                'with ignore declared, template call, inline Python using a let-bound / class-field / parameter name, a '
                'where-predicate on a let-bound name, a data-dependent count) x transparent wrapper (7 kinds) x every '
                'depth 1..45 (thorough 1..130) x {unnamed, named} and computes the expected value on the really nested '
                'expression; plus executions of inputs nested 10^4 (thorough 10^5) deep through a plain rule, a '
                'template, a class and a sequence whose driver traces must be Packrat behaviours with constant '
                'host-stack depth; non-trivial = matching run; distinct by (description, input)')
    chk.assumptions += ['LawWrapTransparent is model-checked for every member; for the 10^4-10^5 deep inputs the expected '
                        'shape is the extrapolation of that law (outside TLC\'s reach)',
                        'hook H1 reports the host-language stack depth at every driver step']
    cases = pegcheck.collect(chk, 'MC_C17', 'MC_C17_' + chk.tier, timeout_s=3000)
    pegcheck.replay(chk, cases, sample_every=1499)
    # deep recursion through the input
    n_small = 2000
    n_big = 10000 if chk.tier == 'quick' else 100000
    dcases = []
    for kind, desc in DEEP:
        dcases.append({'id': len(dcases), 'kind': kind, 'desc': desc, 'n': n_small, 'trace': True})
        dcases.append({'id': len(dcases), 'kind': kind, 'desc': desc, 'n': n_big, 'trace': False})
    recs = engine.run_real(dcases, fn='deep_worker', hooks=True, batch=1)
    traced = []
    for c in dcases:
        rec = recs[c['id']]
        if rec['build'][0] != 'ok':
            raise MachineryFailure('deep worker: %r' % (rec['build'],))
        chk.count(['deep', c['kind'], c['n']], True)
        chk.traces += 1
        want = ['ok', (c['n'] + 1) if c['kind'] in ('class', 'classarg', 'sequence') else 0, 'a']
        if c['kind'] == 'letdeep':
            want = ['ok', 22, c['n'] + 1, 'a']
        if c['kind'] == 'letchain':
            want = ['ok', '(', c['n'] + 1, 'a']
        if c['kind'] == 'letset':
            want = ['ok', 23, 0, 'a']          # 22 layers + the one-element list sorted(x)
        if rec['obs'] != want:
            chk.violation('input nested %d deep through a %s: expected %s, observed %s'
                          % (c['n'], c['kind'], want, rec['obs']),
                          {'desc': c['desc'], 'n': c['n'], 'observed': rec['obs']})
        if c['trace'] and rec['events']:
            traced.append(rec)
            hosts = {e['host'] for e in rec['events']}
            chk.notes.setdefault('host_depths_observed', {})[c['kind']] = sorted(hosts)
    chk.notes['deep_driver_events_validated'] = sum(len(r['events']) for r in traced)
    for rec, consumed, bad, inv in tracecheck.validate_cases(chk, traced, 'deep', per_batch=1):
        chk.violation('driver trace of a deeply nested input rejected by Trace_Packrat at event %d: %r %s'
                      % (consumed + 1, bad, inv or ''), {'desc': rec['desc'], 'rejected_event': bad})
