------------------------------- MODULE MC_C09 -------------------------------
(***************************************************************************)
(* C09 - reported error locations.  State space: number of lines before    *)
(* the erroneous line, its length L, the error column, whether it is the   *)
(* last line.  In every state TLC checks that the transcribed excerpt code *)
(* (ExcerptVM) satisfies the acceptance relation, and emits the case with  *)
(* the expected index / line / column (Report.tla) for the replay: the     *)
(* harness builds a text of that shape, makes a grammar fail (ParseError)  *)
(* or stop (PartialParseError) exactly at the offset and checks the real   *)
(* position record and the real message.                                   *)
(***************************************************************************)
EXTENDS Report, ExcerptVM, TLC, Json

CONSTANTS Tier

PrefLen == 5                       \* every line before the erroneous one has 5 characters

VARIABLES P, L, col, last, done
vars == <<P, L, col, last, done>>

MaxL == IF Tier = "quick" THEN 150 ELSE 420

(* quick: all columns for the line lengths around the regime boundaries, a sample of columns elsewhere *)
Interesting(l) == l \in 0..3 \cup 90..104 \cup {120, 130, 140, 141, 142, 143, 150}

Init == /\ P \in {0, 1, 3}
        /\ L \in 0..MaxL
        /\ last \in {TRUE, FALSE}
        /\ col \in 1..(L + 1)                 \* L + 1 = the offset after the line (line break, or end of input)
        /\ (col = L + 1 => last)              \* an error on the line break itself is not judged
        /\ (Tier = "quick" => (Interesting(L) \/ col \in {1, 2, 59, 60, 61, L - 42, L - 41, L - 40, L - 39, L}))
        /\ (Tier = "quick" => (P = 1 \/ L \in {0, 1, 95, 96, 97, 141}))
        /\ done = FALSE

S == P * (PrefLen + 1)
Tail3 == 3                                   \* when not last: one more line of 3 characters follows
Total == S + L + (IF last THEN 0 ELSE 1 + Tail3)
Pos == S + col - 1

(* abstract text as code points: 120 = "x" for every character, 10 = line break *)
Text == [i \in 1..Total |->
           IF (i <= S /\ i % (PrefLen + 1) = 0) \/ (~last /\ i = S + L + 1) THEN NL ELSE 120]

Step == /\ ~done
        /\ done' = TRUE
        /\ UNCHANGED <<P, L, col, last>>
        /\ PrintT(ToJson([P |-> P, L |-> L, col |-> col, last |-> last, index |-> Pos,
                          atend |-> (Pos = Total),
                          line |-> LineOf(Text, Pos), column |-> ColOf(Text, Pos),
                          regime |-> IF Pos < Total THEN Excerpt(S, L, col, last, Total).regime ELSE 0]))

Next == Step

\* the transcribed mechanism satisfies the acceptance relation everywhere
ExcerptAccepted ==
    (done /\ Pos < Total) => Accept(S, L, col, last, Total, Excerpt(S, L, col, last, Total))

\* line/column by the declarative definition = by the running-counter mechanism of the code
RECURSIVE Counter(_, _, _, _)
\* (line, column) after scanning i characters, as `_map_index_to_line_and_column` computes it
Counter(txt, i, ln, cl) ==
    IF i = 0 THEN <<ln, cl>>
    ELSE LET prev == Counter(txt, i - 1, ln, cl) IN
         IF txt[i] = NL THEN <<prev[1] + 1, 0>> ELSE <<prev[1], prev[2] + 1>>

CounterAgrees ==
    (done /\ Pos < Total /\ L <= 100) =>
        Counter(Text, Pos + 1, 1, 0) = <<LineOf(Text, Pos), ColOf(Text, Pos)>>
=============================================================================
