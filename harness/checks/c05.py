"""C05 - bound names and data-dependent predicates see the values parsed earlier."""
import engine
import pegcheck


def run(chk):
    chk.rule = ('cases = (grammar, input); TLC (MC_C05) enumerates binding form (let, class field, class let-field, '
                'rule parameter, class parameter, class with requires) x use form (where ==, where !=, bare value, '
                'list display, |> and <| closures, repetition count, where len>, positional and keyword template '
                'pass-through) x context (bare; earlier alternative binds the same name and is abandoned; rebinding '
                'per iteration; recursion; shadowing; siblings) on all inputs up to the bound; non-trivial = matches '
                'or fails beyond the offset; distinct by (description, input)')
    chk.assumptions += ['environments of PegSem with the closed inline-Python repertoire PyEval/PyCall',
                        'LawRebindExercised guards against a family in which the abandon-and-rebind path is never taken']
    cases = pegcheck.collect(chk, 'MC_C05', 'MC_C05_' + chk.tier, timeout_s=3000)
    # the same grammars with closures spelled `lambda v_, x=x: ...` (the lambda's own parameters carry grammar names)
    extra = engine.with_lambda_defaults(cases)
    for k, c in enumerate(extra):
        c['id'] = len(cases) + k
    chk.notes['lambda_default_spellings'] = len(extra)
    pegcheck.replay(chk, cases + extra, sample_every=9973)
