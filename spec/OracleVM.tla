----------------------------- MODULE OracleVM -----------------------------
(***************************************************************************)
(* Oracle with the mechanism layer switched on: the same service as        *)
(* Oracle.tla (PegSem's result for every run of every case in the ndjson   *)
(* file CASES) and, for the cases that lie in the fragment PegVM           *)
(* transcribes, the invariant VMAgrees: the register machine of the        *)
(* generated code (with the static flags as written today, and the         *)
(* shunting-yard machine for operator tables) ends with PegSem's result.   *)
(* Used for the seeded random families of C01 and C02, so that the         *)
(* refinement is also exercised on deeper grammars and longer inputs than  *)
(* the exhaustive instances (MC_PegVM, MC_C02) reach.                      *)
(***************************************************************************)
EXTENDS PegVM, Json, IOUtils

Cases == ndJsonDeserialize(IOEnv.CASES)

VARIABLES i, done
vars == <<i, done>>

Init == i \in 1..Len(Cases) /\ done = FALSE

Res(c, k) ==
    LET run == c.runs[k]
        r == EvalEntry(c.g, run[1], run[2], run[3])
    IN <<r.t, r.v, r.e, r.far>>

(* ---- the fragment PegVM transcribes ---- *)
RECURSIVE InVM(_)
InVM(e) ==
    CASE e[1] \in {"str", "stri", "rx", "byte", "fail", "back", "ref"} -> TRUE
      [] e[1] \in {"seq", "choice", "skip", "longest"} -> \A k \in 1..Len(e[2]) : InVM(e[2][k])
      [] e[1] \in {"left", "right"} -> InVM(e[2]) /\ InVM(e[3])
      [] e[1] \in {"opt", "expect", "not"} -> InVM(e[2])
      [] e[1] = "list" -> InVM(e[2]) /\ e[3][1] \in {"none", "n"} /\ e[4][1] \in {"none", "n"}
      [] e[1] = "sep" -> InVM(e[2]) /\ InVM(e[3])
      [] e[1] = "optable" -> InVM(e[2]) /\ \A r \in 1..Len(e[3]) : \A k \in 1..Len(e[3][r][2]) : InVM(e[3][r][2][k])
      [] OTHER -> FALSE

GInVM(G) ==
    /\ G.ign = <<>>
    /\ \A r \in DOMAIN G.rules :
          G.rules[r].kind = "rule" /\ G.rules[r].params = <<>> /\ InVM(G.rules[r].body)

Next == /\ ~done
        /\ done' = TRUE
        /\ i' = i
        /\ LET c == Cases[i] IN
           PrintT(ToJson([id |-> c.id, vm |-> GInVM(c.g), out |-> [k \in 1..Len(c.runs) |-> Res(c, k)]]))

Spec == Init /\ [][Next]_vars

AgreesAt(G, entry, txt, p) ==
    LET s == EvalEntry(G, entry, txt, p)
        r == Run(G, <<"ref", entry>>, txt, p)
    IN s.t = "ill" \/ ( /\ r.st = (s.t = "ok")
                        /\ (r.st => (r.res = s.v /\ r.pos = s.e))
                        /\ (~r.st => r.res[1] # "bad")
                        /\ ((~r.st /\ ~CPS(G, G.rules[entry].body)) => r.pos = p) )

VMAgrees ==
    done => LET c == Cases[i] IN
            GInVM(c.g) => \A k \in 1..Len(c.runs) : AgreesAt(c.g, c.runs[k][1], c.runs[k][2], c.runs[k][3])

=============================================================================
