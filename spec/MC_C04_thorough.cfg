CONSTANTS
  Tier = "thorough"
INIT Init
NEXT Next
INVARIANT LawLengthen
INVARIANT LawVMRefines
CHECK_DEADLOCK FALSE
