CONSTANTS
  Tier = "thorough"
INIT Init
NEXT Next
INVARIANT LawRebindExercised
CHECK_DEADLOCK FALSE
