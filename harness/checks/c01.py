"""C01 - generated parsers implement PEG semantics for the core expressions."""
import gc
import random

import engine
import gen
import pegcheck
import render
import tlc
from common import MachineryFailure


def flags_worker(case):
    """[always_succeeds(), can_partially_succeed()] of the real expression object of each description."""
    out = []
    try:
        from sourcer import grammar as sg, parser as sp, translator as st
    except Exception:   # noqa
        return {'id': case['id'], 'desc': None, 'build': ['ok'], 'obs': [None] * len(case['exprs'])}
    for text in case['exprs']:
        try:
            parsed = sg._parse_grammar('start = %s\nR1 = ["a", "b"]\nR2 = ("a")*\n' % text)
            nodes = sp.transform(parsed.body, st._create_parsing_expression)
            ex = nodes[0].expr
            out.append([bool(ex.always_succeeds()), bool(ex.can_partially_succeed())])
        except BaseException:  # noqa
            out.append(None)
    return {'id': case['id'], 'desc': None, 'build': ['ok'], 'obs': out}


engine.register('flags_worker', flags_worker)


def run(chk):
    chk.rule = ('cases = (grammar, input) pairs; grammars enumerated by TLC (MC_C01: every parent/child '
                'combination of the core forms x continuation contexts) plus seeded random deeper shapes '
                'whose expected outcome comes from the same specification (Oracle.tla); non-trivial = the '
                'specification classifies the pair as well-formed (not "ill"); distinct by (description, input)')
    chk.assumptions += [
        'PegSem.tla is the documented meaning (README/docs/property text); its laws LawSane/LawShift are '
        'model-checked on every member of the family',
        'regex leaves are restricted to the Rx.tla subset; CPython re agrees with Rx on it',
        'error positions are only required to lie within [pos, farthest position examined]',
    ]
    # (B) the mechanism layer (register protocol with the static flags as they are written today) refines the
    # meaning layer on the family: a statement about the design; its failure would be an inconsistency of the
    # specification, not a verdict about the code
    flags = []
    r = tlc.run('MC_PegVM', 'MC_PegVM_' + chk.tier, on_json=flags.append, timeout_s=3000)
    chk.add_tlc(r, 'MC_PegVM')
    if not r.ok:
        raise MachineryFailure('MC_PegVM did not complete')
    fcases = [{'id': i, 'exprs': [render.expr(x['e']) for x in flags[i:i + 200]]} for i in range(0, len(flags), 200)]
    frecs = engine.run_real(fcases, fn='flags_worker', batch=1)
    dis = []
    for fc in fcases:
        for x, got in zip(flags[fc['id']:fc['id'] + 200], frecs[fc['id']]['obs']):
            if got is not None and got != [x['as'], x['cps']]:
                dis.append({'expr': render.expr(x['e']), 'spec': [x['as'], x['cps']], 'code': got})
    chk.notes['flag_comparison'] = {'expressions': len(flags), 'disagreements': len(dis), 'examples': dis[:5],
                                    'meaning': 'PegVM!AS/CPS vs always_succeeds()/can_partially_succeed() of the real '
                                               'expression objects; informational'}
    # (A) TLC-enumerated family, text mode
    if chk.tier == 'quick':
        cases = pegcheck.collect(chk, 'MC_C01', 'MC_C01_quick', timeout_s=3000)
        chk.notes['tlc_enumerated_grammars'] = len(cases)
        pegcheck.replay(chk, cases)
    else:
        # context by context (7 shards): the whole thorough family with its expectations does not fit into memory at once
        total = 0
        for k in range(7):
            cases = pegcheck.collect(chk, 'MC_C01', 'MC_C01_thorough_s%d' % k, timeout_s=3000, label='MC_C01(shard %d/7)' % k)
            total += len(cases)
            pegcheck.replay(chk, cases)
            del cases
            gc.collect()
        chk.notes['tlc_enumerated_grammars'] = total
    # (C2) seeded random deeper shapes, text and bytes mode
    rng = random.Random(chk.seed * 7919 + 1)
    n = 1500 if chk.tier == 'quick' else 20000
    texts = gen.all_texts('ab', 4) + [gen.T(x) for x in ['A', 'Ab', 'aB', 'aaab', 'ababa', 'aabb', 'AB', 'abbab']]
    btexts = gen.all_texts('a\x00', 3) + [gen.T(x) for x in ['ab\x00', 'a\xff', '\xff\x00a', 'aa\x00\x00', 'ba\xff\xff']]
    rcases = []
    for i in range(n):
        bm = (i % 4 == 3)
        cg = gen.CoreGen(rng, bytes_mode=bm)
        g = cg.grammar(3 if i % 3 else 4)
        rcases.append({'id': i, 'g': g, 'cfg': {'bytes': bm, 'prop': 'C01'},
                       'runs': [['start', t, 0] for t in (texts[:40] + btexts if bm else texts)]})
    pegcheck.with_oracle(chk, rcases, module='OracleVM')      # PegSem's results + VMAgrees (PegVM refines them)
    chk.notes['random_grammars'] = len(rcases)
    pegcheck.replay(chk, rcases)
