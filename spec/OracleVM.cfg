INIT Init
NEXT Next
INVARIANT VMAgrees
CHECK_DEADLOCK FALSE
