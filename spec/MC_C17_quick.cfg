CONSTANTS
  Tier = "quick"
INIT Init
NEXT Next
INVARIANT LawWrapTransparent
CHECK_DEADLOCK FALSE
