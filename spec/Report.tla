------------------------------- MODULE Report -------------------------------
(***************************************************************************)
(* Positions: index -> (line, column), the span conversion of class        *)
(* instances, and the acceptance relation for error excerpts (C09, C10).   *)
(* Text is a sequence of code points; 10 is the line break.                *)
(***************************************************************************)
EXTENDS Integers, Sequences

NL == 10

(* number of line breaks strictly before offset i *)
RECURSIVE NLBefore(_, _)
NLBefore(txt, i) == IF i <= 0 THEN 0 ELSE NLBefore(txt, i - 1) + (IF txt[i] = NL THEN 1 ELSE 0)

(* offset of the last line break strictly before offset i, or -1 *)
RECURSIVE LastNL(_, _)
LastNL(txt, i) == IF i <= 0 THEN -1 ELSE IF txt[i] = NL THEN i - 1 ELSE LastNL(txt, i - 1)

LineOf(txt, i) == 1 + NLBefore(txt, i)
ColOf(txt, i)  == i - LastNL(txt, i)

HoldsNL(txt, i) == i >= 0 /\ i < Len(txt) /\ txt[i + 1] = NL

(* <<index, line, column>>; line/column are -1 ("not judged") when the     *)
(* offset holds a line break                                               *)
Position(txt, i) ==
    IF HoldsNL(txt, i) THEN <<i, -1, -1>> ELSE <<i, LineOf(txt, i), ColOf(txt, i)>>

(* span of an instance parsed from offsets [s, e): end is the last offset  *)
(* consumed; an instance that consumed nothing is not judged               *)
Span(txt, s, e) == IF e > s THEN <<Position(txt, s), Position(txt, e - 1)>> ELSE <<"nojudge">>

RECURSIVE Finalize(_, _)
Finalize(v, txt) ==
    CASE v[1] = "o" -> <<"o", v[2], [j \in 1..Len(v[3]) |-> <<v[3][j][1], Finalize(v[3][j][2], txt)>>],
                         Span(txt, v[4][1], v[4][2])>>
      [] v[1] \in {"l", "tu"} -> <<v[1], [j \in 1..Len(v[2]) |-> Finalize(v[2][j], txt)]>>
      [] v[1] = "I" -> <<"I", Finalize(v[2], txt), Finalize(v[3], txt), Finalize(v[4], txt)>>
      [] v[1] = "P" -> <<"P", Finalize(v[2], txt), Finalize(v[3], txt)>>
      [] v[1] = "Q" -> <<"Q", Finalize(v[2], txt), Finalize(v[3], txt)>>
      [] v[1] = "d" -> <<"d", [j \in 1..Len(v[2]) |-> <<Finalize(v[2][j][1], txt), Finalize(v[2][j][2], txt)>>]>>
      [] OTHER -> v
=============================================================================
