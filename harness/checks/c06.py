"""C06 - parameterised rules behave like their expansion."""
import engine
import pegcheck


def run(chk):
    chk.rule = ('cases = (grammar with templates, input); TLC (MC_C06) enumerates call sites (literal, compound, rule '
                'name, keyword, number / string / literal-as-value, earlier results incl. an unhashable list, class '
                'templates, recursive and nested instantiation, arguments mentioning parameters or let-bound names, '
                'the same template with different arguments at the same position) x {unnamed, named grammar} on all '
                'inputs up to the bound; non-trivial = matches or fails beyond the offset')
    chk.assumptions += ['substitution semantics: PegSem binds parser arguments as closures over the call-site '
                        'environment; LawExpansion (call = textual expansion) is model-checked for closed arguments']
    cases = pegcheck.collect(chk, 'MC_C06', 'MC_C06_' + chk.tier, timeout_s=3000)
    # the same grammars with closures spelled `lambda v_, x=x: ...` (the lambda's own parameters carry grammar names)
    extra = engine.with_lambda_defaults(cases)
    for k, c in enumerate(extra):
        c['id'] = len(cases) + k
    chk.notes['lambda_default_spellings'] = len(extra)
    pegcheck.replay(chk, cases + extra, sample_every=997)
