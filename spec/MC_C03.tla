------------------------------- MODULE MC_C03 -------------------------------
(***************************************************************************)
(* C03 - bounded repetition and separated lists.                           *)
(* Family: element in {literal, sequence that can fail after consuming,    *)
(* choice}, separator in {literal, compound, optional-free forms}, every   *)
(* bound form e{m} e{m,n} e{m,} e{,n} for 0 <= m <= n <= 3, the same       *)
(* bounds read from the input through let / class let-field / template     *)
(* parameter, every Sep option vector the constructor accepts, each in the *)
(* enclosing contexts that show where the next alternative or the          *)
(* continuation starts.                                                    *)
(***************************************************************************)
EXTENDS Fam

CONSTANTS Tier

comma == 44
semi == 59
d0 == 48

Elems == << Str(<<a>>),
            Seq2(Str(<<a>>), Str(<<b>>)),               \* fails after consuming "a"
            Ch2(Str(<<a>>), Str(<<a, b>>)),
            Ref("A"),
            Opt(Str(<<a>>)) >>                          \* can match nothing: only meaningful under an upper bound
Seps  == << Str(<<comma>>),
            Seq2(Str(<<comma>>), Str(<<semi>>)),        \* compound: "," consumed, ";" missing
            Ch2(Str(<<comma>>), Str(<<semi>>)) >>

Digit == Apply(Rgx(Cls(<<48, 49, 50, 51>>)), Py(<<"fn", "int">>))

RestAll == Rgx(RxStarG(Cls(<<a, b, comma, semi, 48, 49, 50, 51>>)))

Ctx(c, x) ==
    CASE c = 0 -> x
      [] c = 1 -> Ch2(x, RestAll)
      [] c = 2 -> Seq2(x, RestAll)
      [] c = 3 -> Seq2(Opt(x), RestAll)
      [] c = 4 -> Seq2(Expect(x), RestAll)
      [] c = 5 -> Seq2(Not(x), RestAll)

B(k) == IF k < 0 THEN NoB ELSE Nb(k)

(* kinds of members:                                                        *)
(*  "rep"   : elem{lo,hi} with constant bounds                              *)
(*  "let"   : let n = Digit in elem{..n..}                                  *)
(*  "class" : class C { let n: Digit; items: elem{..n..} }                  *)
(*  "tmpl"  : T(n) = elem{..n..}; start = let k = Digit in T(k)             *)
(*  "sep"   : Sep(elem, sep, options)                                       *)
NamedForms == {"nn", "n_", "_n", "0n", "n3", "pp", "_p", "p_", "oo", "_o"}   \* {n} {n,} {,n} {0,n} {n,3} {`n-1`} {,`n-1`} {`n-1`,} {`n or 2`} {,`n or 2`}
NMinus1 == <<"py", <<"sub", <<"var", "n">>, 1>>>>
NOr2 == <<"py", <<"or", <<"var", "n">>, 2>>>>          \* a bound whose outermost Python operator binds less tightly than a comparison
NamedRep(x, f) ==
    CASE f = "nn" -> Rep(x, Nm("n"), Nm("n"))
      [] f = "n_" -> Rep(x, Nm("n"), NoB)
      [] f = "_n" -> Rep(x, NoB, Nm("n"))
      [] f = "0n" -> Rep(x, Nb(0), Nm("n"))
      [] f = "n3" -> Rep(x, Nm("n"), Nb(3))
      [] f = "pp" -> Rep(x, NMinus1, NMinus1)
      [] f = "_p" -> Rep(x, NoB, NMinus1)
      [] f = "p_" -> Rep(x, NMinus1, NoB)
      [] f = "oo" -> Rep(x, NOr2, NOr2)
      [] f = "_o" -> Rep(x, NoB, NOr2)

VARIABLES kind, el, sp, lo, hi, nf, opts, ctx, done
vars == <<kind, el, sp, lo, hi, nf, opts, ctx, done>>

Bools == {TRUE, FALSE}
CtxSet == IF Tier = "quick" THEN {0, 1, 3} ELSE 0..5

Init ==
    /\ done = FALSE
    /\ el \in 1..Len(Elems)
    /\ ctx \in CtxSet
    /\ \/ /\ kind = "rep" /\ sp = 1 /\ nf = "" /\ opts = <<TRUE, FALSE, TRUE, FALSE>>
          /\ lo \in -1..3 /\ hi \in -1..3 /\ (hi >= 0 => lo <= hi)
       \/ /\ kind \in {"let", "letarg", "class", "tmpl"} /\ sp = 1 /\ lo = 0 /\ hi = 0
          /\ nf \in NamedForms /\ opts = <<TRUE, FALSE, TRUE, FALSE>>
       \/ /\ kind = "let2" /\ sp = 1 /\ lo = 0 /\ hi = 0 /\ el \in {1, 2} /\ nf \in {"nn", "_n"}
          /\ opts = <<TRUE, FALSE, TRUE, FALSE>>
       \/ /\ kind = "letctx" /\ sp = 1 /\ lo = 0 /\ hi = 0        \* the context is INSIDE the let: the list itself is the alternative
          /\ nf \in NamedForms /\ opts = <<TRUE, FALSE, TRUE, FALSE>> /\ ctx # 0
       \/ /\ kind = "sep" /\ lo = 0 /\ hi = 0 /\ nf = ""
          /\ sp \in 1..Len(Seps)
          /\ opts \in {<<d, t, e, r>> : d \in Bools, t \in Bools, e \in Bools, r \in Bools}
          /\ ~(opts[4] /\ ~opts[2])       \* rejected by the constructor

Core ==
    CASE kind = "rep"   -> Rep(Elems[el], B(lo), B(hi))
      [] kind = "let"   -> Let("n", Digit, NamedRep(Elems[el], nf))
      [] kind = "letctx" -> Let("n", Digit, Ctx(ctx, NamedRep(Elems[el], nf)))
         \* the repetition is (part of) a compound argument, which the generator moves into a helper function
      [] kind = "letarg" -> Let("n", Digit, Call("Id", <<Pos(Seq2(NamedRep(Elems[el], nf), Opt(Str(<<semi>>))))>>))
         \* two repetitions with name-dependent bounds, one directly inside the element of the other (rows of cells)
      [] kind = "let2" -> Let("n", Digit, Let("k", Digit,
                              Rep(Left(Rep(Elems[el], Nm("k"), Nm("k")), Str(<<semi>>)), IF nf = "nn" THEN Nm("n") ELSE NoB, Nm("n"))))
      [] kind = "class" -> Ref("C")
      [] kind = "tmpl"  -> Let("k", Digit, Call("T", <<Pos(Ref("k"))>>))
      [] kind = "sep"   -> Sep(Elems[el], Seps[sp], opts)

G == [rules |-> [start |-> Rule(IF kind = "letctx" THEN Core ELSE Ctx(ctx, Core)),
                 A |-> Rule(Seq2(Str(<<a>>), Opt(Str(<<b>>)))),
                 C |-> Class(<<LetF("n", Digit), Field("items", NamedRep(Elems[el], IF nf = "" THEN "nn" ELSE nf))>>),
                 T |-> RuleP(<<"n">>, NamedRep(Elems[el], IF nf = "" THEN "nn" ELSE nf)),
                 Id |-> RuleP(<<"p">>, Ref("p"))],
      ign |-> <<>>, start |-> "start"]

Bodies == TextSeqUpTo(<<a, b, comma>>, IF Tier = "quick" THEN 5 ELSE 6)
          \o << <<a, comma, semi, a>>, <<a, semi, a, comma>>, <<a, comma, semi>>, <<a, b, comma, semi, a, b>>,
                <<a, comma, a, semi>>, <<semi>>, <<a, semi>> >>

(* named bounds read a leading digit *)
RECURSIVE WithDigits(_, _)
WithDigits(ts, i) ==
    IF i > Len(ts) THEN <<>>
    ELSE IF Len(ts[i]) > 4 THEN WithDigits(ts, i + 1)
    ELSE << <<48>> \o ts[i], <<49>> \o ts[i], <<50>> \o ts[i], <<51>> \o ts[i] >> \o WithDigits(ts, i + 1)

DigitTexts == WithDigits(Bodies, 1) \o << <<>>, <<a>>, <<a, a>> >>

(* two leading digits (rows, cells per row) and a body of cells and row ends *)
RowBodies == TextSeqUpTo(<<a, semi>>, 5) \o << <<a, a, semi, a, a, semi>>, <<a, b, semi, a, b, semi>>, <<a, a, a, semi, a, a, a, semi>>,
                                               <<a, semi, a, semi, a, semi>>, <<a, a, semi, a, semi>> >>
RECURSIVE WithTwoDigits(_, _)
WithTwoDigits(ts, i) ==
    IF i > Len(ts) THEN <<>>
    ELSE [j \in 1..9 |-> <<48 + ((j - 1) \div 3), 48 + ((j - 1) % 3)>> \o ts[i]] \o WithTwoDigits(ts, i + 1)

Texts == IF kind \in {"let", "letarg", "class", "tmpl", "letctx"} THEN DigitTexts
         ELSE IF kind = "let2" THEN WithTwoDigits(RowBodies, 1) ELSE Bodies

Step == /\ ~done
        /\ done' = TRUE
        /\ UNCHANGED <<kind, el, sp, lo, hi, nf, opts, ctx>>
        /\ EmitCase(G, [prop |-> "C03"], <<"start">>, Texts)

Next == Step

(* ---- laws ---- *)
\* a bounded repetition never returns more than hi and never fewer than lo elements
LawBounds ==
    (done /\ kind = "rep" /\ ctx = 0) =>
    \A k \in 1..Len(Texts) :
        LET r == EvalEntry(G, "start", Texts[k], 0) IN
        r.t = "ok" => (Len(r.v[2]) >= (IF lo < 0 THEN 0 ELSE lo) /\ (hi >= 0 => Len(r.v[2]) <= hi))

\* discarding separators: the result holds only elements; keeping them: elements and separators alternate
LawSepShape ==
    (done /\ kind = "sep" /\ ctx = 0) =>
    \A k \in 1..Len(Texts) :
        LET r == EvalEntry(G, "start", Texts[k], 0) IN
        r.t = "ok" => /\ (~opts[3] => r.v[2] # <<>>)
                      /\ ((opts[1] /\ ~opts[2] /\ el # 5) =>      \* (an element that may match nothing can follow the last separator)
                             (r.e = 0 \/ Texts[k][r.e] \notin {comma, semi}))
=============================================================================
