------------------------------ MODULE Bootstrap ------------------------------
(***************************************************************************)
(* C12 - the shipped grammar-description parser is a fixed point of the    *)
(* generator.  The bootstrap history as a state machine:                   *)
(*   installed : which generation of the description parser is installed   *)
(*               as sourcer/parser.py (0 = shipped)                        *)
(*   src       : generation -> digest of its source text (generation g+1   *)
(*               is produced by compiling grammar.txt while generation g   *)
(*               is installed); 0 stands for "not produced yet"            *)
(*   selfok    : generations whose parser accepted grammar.txt itself      *)
(*   agree     : set of descriptions on which generations 0 and 1 returned *)
(*               the same tree or rejected at the same position            *)
(*   differ    : set of descriptions on which they did not                 *)
(*   redo      : digests obtained by compiling grammar.txt AGAIN with the  *)
(*               same installed generation (in the same process, after     *)
(*               other grammars - generate_parser.py itself compiles twice *)
(*               in one process)                                           *)
(* Actions: Generate(sha) (compile grammar.txt with the installed parser), *)
(* SelfParse(g, ok), Install(g), Compare(d, same), Regenerate(sha).        *)
(* The property is the conjunction of the invariants below at the end of   *)
(* the history  Generate . SelfParse(1) . Compare* . Install(1) . Generate.*)
(* Trace_Bootstrap replays the recorded history of a real bootstrap run.   *)
(***************************************************************************)
EXTENDS Naturals, FiniteSets

VARIABLES installed, src, selfok, agree, differ, redo
bvars == <<installed, src, selfok, agree, differ, redo>>

BInit == installed = 0 /\ src = [g \in 0..2 |-> IF g = 0 THEN 1 ELSE 0] /\ selfok = {} /\ agree = {} /\ differ = {}
         /\ redo = [g \in 1..2 |-> {}]

Generate(sha) ==
    /\ installed < 2 /\ sha # 0
    /\ src[installed + 1] = 0
    /\ src' = [src EXCEPT ![installed + 1] = sha]
    /\ UNCHANGED <<installed, selfok, agree, differ, redo>>

SelfParse(g, ok) ==
    /\ src[g] # 0
    /\ selfok' = IF ok THEN selfok \cup {g} ELSE selfok
    /\ UNCHANGED <<installed, src, agree, differ, redo>>

Install(g) ==
    /\ src[g] # 0 /\ g = installed + 1
    /\ g \in selfok                    \* generate_parser.py only installs a parser that describes itself
    /\ installed' = g
    /\ UNCHANGED <<src, selfok, agree, differ, redo>>

Compare(d, same) ==
    /\ src[1] # 0
    /\ agree' = IF same THEN agree \cup {d} ELSE agree
    /\ differ' = IF same THEN differ ELSE differ \cup {d}
    /\ UNCHANGED <<installed, src, selfok, redo>>

Regenerate(sha) ==
    /\ installed < 2 /\ sha # 0
    /\ src[installed + 1] # 0
    /\ redo' = [redo EXCEPT ![installed + 1] = @ \cup {sha}]
    /\ UNCHANGED <<installed, src, selfok, agree, differ>>

(* the property, once generation 2 exists *)
FixedPoint   == src[2] # 0 => src[2] = src[1]
SelfHosting  == src[2] # 0 => 1 \in selfok
SameLanguage == differ = {}
\* "regenerating ... reproduces its source text exactly": the text is a function of grammar.txt and the installed parser
Deterministic == \A g \in 1..2 : \A x \in redo[g] : x = src[g]
=============================================================================
