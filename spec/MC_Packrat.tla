----------------------------- MODULE MC_Packrat -----------------------------
(***************************************************************************)
(* Model-checking instance of Packrat: an abstract program decides what    *)
(* each rule body requests and returns.  Rules 1..NR at a single input     *)
(* position; Req[i] is the sequence of rules body i asks for (only higher  *)
(* numbers: no left recursion).  TLC explores every program in the bound   *)
(* and every interleaving of NC calls (overlap = threads, nesting); the    *)
(* `trace` history variable records the driver events of call 1 so that    *)
(* each behaviour can be replayed into the real driver (the harness builds *)
(* the grammar  R_i = [Opt(Expect(R_j1)), ..., "a"?]  that realises Req).  *)
(***************************************************************************)
EXTENDS Packrat, Json

CONSTANTS NR, NC, MaxReq

VARIABLES req,      \* the abstract program: req[i] \in Seq(i+1..NR)
          pc,       \* pc[c]: sequence (parallel to stack[c]) of requests already served per frame
          oid,      \* next object id
          trace     \* events of call 1 (history)

vars == <<stack, memo, last, evals, host, finished, req, pc, oid, trace>>

Key(i) == <<i, 0>>

SeqsUpTo(S, n) == UNION {[1..m -> S] : m \in 0..n}

Init == /\ PInit
        /\ req \in {f \in [1..NR -> SeqsUpTo(1..NR, MaxReq)] :
                       \A i \in 1..NR : \A j \in 1..Len(f[i]) : f[i][j] > i}
        /\ pc = <<>> /\ oid = 1 /\ trace = <<>>

Log(c, e) == IF c = 1 THEN trace' = Append(trace, e) ELSE UNCHANGED trace

MBegin(c) ==
    /\ Begin(c, Key(1), 0)
    /\ pc' = Ext(pc, c, <<0>>)
    /\ Log(c, <<"begin", 1>>)
    /\ UNCHANGED <<req, oid>>

\* the top frame's next request
MStep(c) ==
    /\ c \in Live /\ stack[c] # <<>>
    /\ LET k == Top(c)  i == k[1]  n == pc[c][Len(pc[c])] IN
       IF n < Len(req[i])
       THEN LET j == req[i][n + 1] IN
            IF Key(j) \in DOMAIN memo[c]
            THEN /\ Hit(c, Key(j), memo[c][Key(j)], 0)
                 /\ pc' = [pc EXCEPT ![c] = [@ EXCEPT ![Len(@)] = n + 1]]
                 /\ Log(c, <<"hit", j>>)
                 /\ UNCHANGED <<req, oid>>
            ELSE /\ Push(c, Key(j), 0)
                 /\ pc' = [pc EXCEPT ![c] = Append([@ EXCEPT ![Len(@)] = n + 1], 0)]
                 /\ Log(c, <<"push", j>>)
                 /\ UNCHANGED <<req, oid>>
       ELSE /\ Ret(c, k, <<TRUE, 0, oid>>, 0)
            /\ oid' = oid + 1
            /\ pc' = [pc EXCEPT ![c] = SubSeq(@, 1, Len(@) - 1)]
            /\ Log(c, <<"ret", i>>)
            /\ UNCHANGED req

MEnd(c) ==
    /\ c \in Live /\ stack[c] = <<>>
    /\ End(c, last[c])
    /\ pc' = Drop(pc, c)
    /\ Log(c, <<"end", 0>>)
    /\ UNCHANGED <<req, oid>>

MAbort(c) ==
    /\ c # 1                     \* call 1 is the one whose behaviour is replayed
    /\ Abort(c)
    /\ pc' = Drop(pc, c)
    /\ UNCHANGED <<req, oid, trace>>

Next == \E c \in 1..NC : MBegin(c) \/ MStep(c) \/ MEnd(c) \/ MAbort(c)

Spec == Init /\ [][Next]_vars

(* ---- properties ---- *)
\* C07: within one call a plain key's body is started at most once: Push is only
\* enabled for keys not in evals (follows from NothingLost + the Push guards)
AtMostOnce == [][\A c \in Live \cap DOMAIN stack' :
                    \A k \in evals'[c] \ evals[c] : k \notin evals[c]]_vars

InvMemoOwn == MemoOwn
InvStackSane == StackSane
InvNothingLost == NothingLost
InvBound == MemoBound(NR, 1)

\* C18: a step of call c changes nothing of any other live call
Isolation ==
    [][\A d \in Live \cap DOMAIN stack' :
          (stack'[d] # stack[d] \/ memo'[d] # memo[d] \/ last'[d] # last[d]) =>
          \A d2 \in (Live \cap DOMAIN stack') \ {d} :
              stack'[d2] = stack[d2] /\ memo'[d2] = memo[d2] /\ last'[d2] = last[d2]]_vars

\* C18: the behaviour of call 1 does not depend on what the other calls do: when it
\* has ended, its event sequence is the one the sequential run produces
RECURSIVE SeqRun(_, _, _, _)
\* sequential reference: depth-first evaluation with a memo (set of returned rules)
\* returns <<events, memoset>>
SeqRun(f, i, done, ev) ==
    LET body[n \in 0..Len(f[i])] ==
            IF n = 0 THEN <<ev, done>>
            ELSE LET prev == body[n - 1]  j == f[i][n] IN
                 IF j \in prev[2] THEN <<Append(prev[1], <<"hit", j>>), prev[2]>>
                 ELSE SeqRun(f, j, prev[2], Append(prev[1], <<"push", j>>))
        fin == body[Len(f[i])]
    IN <<Append(fin[1], <<"ret", i>>), fin[2] \cup {i}>>

Expected == Append(SeqRun(req, 1, {}, << <<"begin", 1>> >>)[1], <<"end", 0>>)

OutcomeIndependent == (1 \in finished) => trace = Expected

\* emission of one behaviour per program for the replay (single-call configuration)
Emitted == (1 \in finished /\ NC = 1) =>
             PrintT(ToJson([req |-> req, trace |-> trace]))
=============================================================================
