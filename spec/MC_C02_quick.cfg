CONSTANTS
  Tier = "quick"
INIT Init
NEXT Next
INVARIANT LawFlatten
INVARIANT LawExtends
CHECK_DEADLOCK FALSE
