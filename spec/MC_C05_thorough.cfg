CONSTANTS
  Tier = "thorough"
INIT Init
NEXT Next
INVARIANT LawRebindExercised
INVARIANT LawUseExercised
INVARIANT LawShadowExercised
CHECK_DEADLOCK FALSE
