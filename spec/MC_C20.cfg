INIT Init
NEXT Next
INVARIANT LawRenaming
CHECK_DEADLOCK FALSE
