#!/bin/bash
# tools/try_seed.sh <dir with patchN.diff/demoN.py> <N> <PROP> [tier]
# Applies a seeded change to /repo, confirms tests pass and the demo fails, runs the check, undoes the change.
d=$1; n=$2; prop=$3; tier=${4:-quick}
cd /repo || exit 2
git diff --quiet || { echo "repo not clean"; exit 2; }
git apply "$d/patch$n.diff" || { echo "patch does not apply"; exit 2; }
trap 'git -C /repo checkout -- . ; git -C /repo clean -fdq sourcer 2>/dev/null' EXIT
t=$(cd /repo && timeout 600 /venv/bin/python -m pytest -q -p no:cacheprovider 2>&1 | tail -1)
echo "tests: $t"
(cd /tmp && PYTHONPATH=/repo timeout 120 /venv/bin/python "$d/demo$n.py" >/dev/null 2>&1); echo "demo exit with patch: $?"
cd /verif
for p in $prop; do
  out=$(timeout 1500 ./check $p $tier 2>&1); rc=$?
  echo "check $p $tier: exit $rc; $(echo "$out" | grep -c '^VIOLATION') VIOLATION lines"
  echo "$out" | grep -v "^VIOLATION" | tail -4 | cut -c1-200
done
