------------------------------- MODULE PegVM -------------------------------
(***************************************************************************)
(* Mechanism layer for C01/C03: the register protocol of the generated     *)
(* code, transcribed per `_compile` method of sourcer/expressions/*.py.    *)
(*                                                                         *)
(* Every expression leaves three registers behind: status (did it match),  *)
(* result (value, or an error function on failure - here "err"), and pos.  *)
(* Whether a parent saves and restores the position around a child is      *)
(* decided STATICALLY by two flags of the child:                           *)
(*   AS(e)  = e.always_succeeds()       (no status test is emitted)        *)
(*   CPS(e) = e.can_partially_succeed() (e may fail with pos advanced, so  *)
(*            a checkpoint/restore is emitted around it)                   *)
(* A literal that fails leaves pos where it was, so it needs no restore;   *)
(* a wrong flag means a missing restore for some parent/child combination. *)
(* Run(G, e, txt, p) executes the protocol; VMRefinesSem (checked by TLC   *)
(* in MC_PegVM over the C01/C03 families) says that the final registers    *)
(* are PegSem's result - i.e. that the flags as they are now written are   *)
(* sufficient for every combination in the bound.                          *)
(*                                                                         *)
(* Code sites: str.py, regex.py, byte.py, ref.py, seq.py, discard.py,      *)
(* choice.py, opt.py, list.py, sep.py, expect.py, skip.py, longest.py,     *)
(* backtrack.py, fail.py, inline_python.py, utils.py (if_succeeds,         *)
(* if_fails, breakable, repeat), operator_table.py (the shunting-yard      *)
(* machine with its two stacks, the commit marker and the two checkpoints; *)
(* section "operator tables" below), and the ignore mechanism of           *)
(* translator.py (skip after every literal, leading skip of the start      *)
(* rule).  let/where/apply, classes and calls are not transcribed (their   *)
(* positions are moved only through the forms below); InVM says which      *)
(* grammars lie inside the transcribed fragment.                           *)
(***************************************************************************)
EXTENDS PegSem

Reg(st, res, pos) == [st |-> st, res |-> res, pos |-> pos]
Err == <<"err">>

(* ---- operator_table.py, OperatorTable.create: how the rows are regrouped ---- *)
\* a row holds one operator or a Choice of its operators; prefix / infix rows are tagged (precedence, assoc_id, x),
\* postfix rows (precedence, x) - here one internal form <<"tag", row, assoc_id, expr>> with value <<"op", row, assoc_id, v>>;
\* several rows of a kind are combined with Longest; mixfix rows join the operand.
OTRows(tbl, kinds) ==
    SelectSeq([i \in 1..Len(tbl[3]) |-> i], LAMBDA i : tbl[3][i][1] \in kinds /\ tbl[3][i][2] # <<>>)
OTRowExpr(row) == IF Len(row[2]) = 1 THEN row[2][1] ELSE <<"choice", row[2]>>
OTAssocId(as) == CASE as = "prefix" -> 0 [] as = "left" -> 1 [] as = "right" -> 2 [] OTHER -> 3
OTNone == <<"none">>
OTCombine(es) == IF es = <<>> THEN OTNone ELSE IF Len(es) = 1 THEN es[1] ELSE <<"longest", es>>
OTTagged(tbl, kinds) ==
    LET rs == OTRows(tbl, kinds) IN
    OTCombine([k \in 1..Len(rs) |-> <<"tag", rs[k], OTAssocId(tbl[3][rs[k]][1]), OTRowExpr(tbl[3][rs[k]])>>])
OTOperands(tbl) ==
    LET rs == OTRows(tbl, {"mixfix"}) IN
    OTCombine(<<tbl[2]>> \o [k \in 1..Len(rs) |-> OTRowExpr(tbl[3][rs[k]])])

(* ---- the static flags, per class (base.py defaults, overridden per class) ---- *)
RECURSIVE AS(_, _)
RECURSIVE CPS(_, _)

\* always_succeeds()
AS(G, e) ==
    CASE e[1] = "str"  -> e[2] = <<>>                         \* str.py: not self.value
      [] e[1] \in {"opt", "skip", "py"} -> TRUE               \* opt.py, skip.py, inline_python.py
      [] e[1] = "list" -> e[3] \in {<<"none">>, <<"n", 0>>}   \* list.py: not self.min_len
      [] e[1] = "sep"  -> e[4][3] /\ ~e[4][4]                 \* sep.py: allow_empty and not require_separator
      [] e[1] \in {"choice", "longest"} -> \E i \in 1..Len(e[2]) : AS(G, e[2][i])
      [] e[1] \in {"left", "right"} -> AS(G, e[2]) /\ AS(G, e[3])      \* discard.py
      [] e[1] = "expect" -> AS(G, e[2])                       \* expect.py
      [] e[1] = "tag" -> AS(G, e[4])                          \* apply.py: expr1 and the (total) Python tagger
      [] e[1] = "optable" -> AS(G, OTOperands(e))             \* operator_table.py: self.operands.always_succeeds()
      [] OTHER -> FALSE                                       \* base.py default (seq, ref, rx, byte, not, back, fail, stri)

\* can_partially_succeed()
CPS(G, e) ==
    CASE e[1] \in {"str", "stri", "rx", "byte", "back", "py", "opt", "skip"} -> FALSE
      [] e[1] = "list" -> IF AS(G, e) THEN FALSE
                          ELSE CPS(G, e[2]) \/ e[3] # <<"n", 1>>          \* list.py (after fix 9633d51)
      [] e[1] \in {"choice", "longest"} -> ~AS(G, e) /\ \E i \in 1..Len(e[2]) : CPS(G, e[2][i])
      [] e[1] = "expect" -> CPS(G, e[2])
      [] e[1] = "optable" -> IF AS(G, e) THEN FALSE           \* operator_table.py (after fix 224ba1a)
                             ELSE OTRows(e, {"prefix"}) # <<>> \/ CPS(G, OTOperands(e))
      [] OTHER -> ~AS(G, e)                                   \* base.py default: seq, discard, sep, ref, not, fail, tag (Apply)

(* ---- the protocol ---- *)
RECURSIVE Run(_, _, _, _)
RECURSIVE RunSeq(_, _, _, _, _, _)
RECURSIVE RunChoice(_, _, _, _, _, _, _, _, _)
RECURSIVE RunList(_, _, _, _, _)
RECURSIVE RunSep(_, _, _, _, _, _, _)
RECURSIVE RunSkipRound(_, _, _, _, _, _)
RECURSIVE RunLongest(_, _, _, _, _, _, _, _, _, _)
RECURSIVE OTPrefixes(_, _, _, _)
RECURSIVE OTPostfixes(_, _, _, _)
RECURSIVE OTLoop(_, _, _, _)

\* str.py / regex.py / byte.py: a literal matched up to q; with ignore declarations the translator sets skip_ignored on
\* every literal (also on those inside the ignored rules themselves) and the generated code continues with
\* `pos = yield (CALL, _ignored, end)` - the rule _ignored is Skip(Ref(I1), ..., Ref(In)) over the ignored rules.
\* <<"iref", k>> stands for the reference to the k-th ignored rule (a Ref: default flags).
IgnoredBody(G) == <<"skip", [k \in 1..Len(G.ign) |-> <<"iref", k>>]>>
RunIgn(G, txt, q) == RunSkipRound(G, IgnoredBody(G)[2], 1, txt, q, q).pos
LitOK(G, v, q, txt) ==
    IF G.ign = <<>> THEN Reg(TRUE, v, q) ELSE Reg(TRUE, v, RunIgn(G, txt, q))

Run(G, e, txt, p) ==
    CASE e[1] = "str" ->
           IF e[2] = <<>> THEN Reg(TRUE, <<"s", <<>>>>, p)
           ELSE IF p + Len(e[2]) <= Len(txt) /\ SubSeq(txt, p + 1, p + Len(e[2])) = e[2]
                THEN LitOK(G, <<"s", e[2]>>, p + Len(e[2]), txt) ELSE Reg(FALSE, Err, p)
      [] e[1] = "stri" ->
           LET n == Len(e[2]) IN
           IF p + n <= Len(txt) /\ \A i \in 1..n : RxFold(txt[p + i]) = RxFold(e[2][i])
           THEN LitOK(G, <<"s", SubSeq(txt, p + 1, p + n)>>, p + n, txt) ELSE Reg(FALSE, Err, p)
      [] e[1] = "rx" ->
           LET q == RxMatch(e[2], txt, p, e[3]) IN
           IF q < 0 THEN Reg(FALSE, Err, p) ELSE LitOK(G, <<"s", SubSeq(txt, p + 1, q)>>, q, txt)
      [] e[1] = "byte" ->
           IF p < Len(txt) /\ txt[p + 1] = e[2] THEN LitOK(G, <<"i", e[2]>>, p + 1, txt) ELSE Reg(FALSE, Err, p)
      [] e[1] = "py" -> Reg(TRUE, PyEval(e[2], EmptyEnv), p)
      [] e[1] = "fail" -> Reg(FALSE, Err, p)
      [] e[1] = "back" -> IF p >= e[2] THEN Reg(TRUE, None, p - e[2]) ELSE Reg(FALSE, Err, p)
      [] e[1] = "ref" ->                                           \* the driver calls the rule; registers come back
           \* translator.py: the start rule's expression becomes  _ignored >> expr  when there are ignore declarations
           LET lead == IF e[2] = G.start /\ G.ign # <<>> THEN RunIgn(G, txt, p) ELSE p IN
           Run(G, G.rules[e[2]].body, txt, lead)
      [] e[1] = "iref" -> Run(G, G.ign[e[2]], txt, p)
      [] e[1] = "seq" -> RunSeq(G, e[2], 1, txt, p, <<>>)
      [] e[1] \in {"left", "right"} ->                             \* discard.py
           LET r1 == Run(G, e[2], txt, p) IN
           IF ~AS(G, e[2]) /\ ~r1.st THEN r1                        \* if_fails: break
           ELSE LET r2 == Run(G, e[3], txt, r1.pos) IN
                IF e[1] = "right" THEN r2
                ELSE IF AS(G, e[3]) \/ r2.st THEN Reg(r2.st, r1.res, r2.pos)   \* RESULT << staging
                ELSE r2
      [] e[1] = "choice" ->
           LET needsErr == ~AS(G, e)
               needsBack == \E i \in 1..Len(e[2]) : CPS(G, e[2][i])
           IN RunChoice(G, e[2], 1, txt, p, p, p, Err, <<needsErr, needsBack>>)
      [] e[1] = "opt" ->                                           \* opt.py: backtrack always emitted
           LET r == Run(G, e[2], txt, p) IN
           IF AS(G, e[2]) \/ r.st THEN r ELSE Reg(TRUE, None, p)
      [] e[1] = "list" -> RunList(G, e, txt, p, <<>>)
      [] e[1] = "sep" -> RunSep(G, e, txt, p, p, <<>>, FALSE)
      [] e[1] = "expect" ->                                        \* expect.py: restore only on success
           LET r == Run(G, e[2], txt, p) IN
           IF AS(G, e[2]) \/ r.st THEN Reg(r.st, r.res, p) ELSE r
      [] e[1] = "not" ->                                           \* expect.py ExpectNot: always restores
           LET r == Run(G, e[2], txt, p) IN
           IF r.st THEN Reg(FALSE, Err, p) ELSE Reg(TRUE, None, p)
      [] e[1] = "skip" -> RunSkipRound(G, e[2], 1, txt, p, p)
      [] e[1] = "longest" ->
           IF Len(e[2]) = 1 THEN Run(G, e[2][1], txt, p)
           ELSE RunLongest(G, e[2], 1, txt, p, p, FALSE, None, p, <<p, Err>>)
      [] e[1] = "tag" ->                                           \* apply.py with the tagger of create()
           LET r == Run(G, e[4], txt, p) IN
           IF AS(G, e[4]) \/ r.st THEN Reg(TRUE, <<"op", e[2], e[3], r.res>>, r.pos) ELSE r
      [] e[1] = "optable" ->                                       \* operator_table.py
           OTLoop(G, e, txt, [pos |-> p, outer |-> p, inner |-> p, opnds |-> <<>>, ops |-> <<>>, marker |-> 0, bad |-> ""])

\* seq.py: an element that fails ends the sequence with the registers as that element left them
RunSeq(G, es, i, txt, p, acc) ==
    IF i > Len(es) THEN Reg(TRUE, <<"l", acc>>, p)
    ELSE LET r == Run(G, es[i], txt, p) IN
         IF ~AS(G, es[i]) /\ ~r.st THEN r
         ELSE RunSeq(G, es, i + 1, txt, r.pos, Append(acc, r.res))

\* choice.py.  fl = <<needs_err, needs_backtrack>>; back = the backtrack variable (entry position);
\* fpos/ferr = farthest_pos / farthest_err
RunChoice(G, es, i, txt, p, back, fpos, ferr, fl) ==
    IF i > Len(es)
    THEN (IF fl[1] THEN Reg(FALSE, ferr, fpos) ELSE Reg(FALSE, Err, p))
    ELSE LET x == es[i]
             r == Run(G, x, txt, p) IN
         IF AS(G, x) \/ r.st THEN r                                   \* commit to the first success
         ELSE LET upd == fl[1] /\ CPS(G, x) /\ (IF x[1] = "fail" THEN fpos <= r.pos ELSE fpos < r.pos)
                  fpos1 == IF upd THEN r.pos ELSE fpos
                  ferr1 == IF upd THEN r.res ELSE ferr
                  \* the position is only put back when this option "can partially succeed"
                  p1 == IF i + 1 <= Len(es) /\ CPS(G, x) THEN back ELSE r.pos
              IN RunChoice(G, es, i + 1, txt, p1, back, fpos1, ferr1, fl)

\* list.py (constant bounds)
RunList(G, e, txt, p, acc) ==
    LET x == e[2]
        lo == IF e[3][1] = "n" THEN e[3][2] ELSE 0
        hi == IF e[4][1] = "n" THEN e[4][2] ELSE -1
        finish(st, res, pos) ==
            IF lo = 0 THEN Reg(TRUE, <<"l", acc>>, pos)
            ELSE IF Len(acc) >= lo THEN Reg(TRUE, <<"l", acc>>, pos)
            ELSE Reg(st, res, pos)                                 \* registers stay as the loop left them
    IN IF hi = 0 THEN Reg(TRUE, <<"l", <<>>>>, p)
       ELSE LET r == Run(G, x, txt, p) IN
            IF ~AS(G, x) /\ ~r.st
            THEN finish(FALSE, r.res, IF CPS(G, x) THEN p ELSE r.pos)   \* POS << checkpoint only if CPS(expr)
            ELSE IF r.pos <= p /\ hi < 0 THEN Reg(FALSE, <<"diverges">>, p)   \* (ill-formed: the real loop never ends)
            ELSE LET acc1 == Append(acc, r.res) IN
                 IF hi > 0 /\ Len(acc1) = hi
                 THEN Reg(TRUE, <<"l", acc1>>, r.pos)              \* len == max: break; min <= max holds
                 ELSE RunList(G, e, txt, r.pos, acc1)

\* sep.py
RunSep(G, e, txt, p, cp, acc, saw) ==
    LET o == e[4]
        done(items) ==
            LET good == IF o[3] /\ o[4] THEN (items = <<>> \/ saw)
                        ELSE IF o[4] THEN saw ELSE IF o[3] THEN TRUE ELSE items # <<>>
            IN IF good THEN Reg(TRUE, <<"l", items>>, cp) ELSE Reg(FALSE, Err, p)
        r == Run(G, e[2], txt, p)
    IN IF ~AS(G, e[2]) /\ ~r.st
       THEN (LET d == done(IF ~o[1] /\ ~o[2] /\ acc # <<>> THEN SubSeq(acc, 1, Len(acc) - 1) ELSE acc) IN
             IF d.st THEN d ELSE Reg(FALSE, r.res, r.pos))      \* on failure the registers stay as the element left them
       ELSE LET acc1 == Append(acc, r.res)
                s == Run(G, e[3], txt, r.pos) IN
            IF ~AS(G, e[3]) /\ ~s.st
            THEN (LET good == IF o[4] THEN saw ELSE TRUE IN
                  IF good THEN Reg(TRUE, <<"l", acc1>>, r.pos) ELSE Reg(FALSE, Err, s.pos))
            ELSE IF s.pos <= p THEN Reg(FALSE, <<"diverges">>, p)
            ELSE RunSep(G, e, txt, s.pos, IF o[2] THEN s.pos ELSE r.pos,
                        IF o[1] THEN acc1 ELSE Append(acc1, s.res), TRUE)

\* skip.py: one round over the expressions; an expression that made progress restarts the round
RunSkipRound(G, es, i, txt, p, cp) ==
    IF i > Len(es) THEN Reg(TRUE, None, p)
    ELSE LET r == Run(G, es[i], txt, p) IN
         IF (AS(G, es[i]) \/ r.st) /\ r.pos # cp
         THEN (IF r.pos < cp THEN Reg(FALSE, <<"diverges">>, p) ELSE RunSkipRound(G, es, 1, txt, r.pos, r.pos))
         ELSE RunSkipRound(G, es, i + 1, txt,
                           IF AS(G, es[i]) \/ r.st THEN r.pos
                           ELSE IF CPS(G, es[i]) THEN cp ELSE r.pos, cp)

\* longest.py: has = has_result; best = farthest_result; bpos = farthest_position; fe = <<farthest_error_position, result>>
RunLongest(G, es, i, txt, p, back, has, best, bpos, fe) ==
    IF i > Len(es)
    THEN (IF has THEN Reg(TRUE, best, bpos) ELSE Reg(FALSE, fe[2], fe[1]))
    ELSE LET r == Run(G, es[i], txt, back) IN            \* every option starts at the entry position
         IF AS(G, es[i]) \/ r.st
         THEN (IF ~has \/ bpos < r.pos THEN RunLongest(G, es, i + 1, txt, p, back, TRUE, r.res, r.pos, fe)
               ELSE RunLongest(G, es, i + 1, txt, p, back, has, best, bpos, fe))
         ELSE LET upd == ~has /\ (IF es[i][1] = "fail" THEN fe[1] <= r.pos ELSE fe[1] < r.pos)
              IN RunLongest(G, es, i + 1, txt, p, back, has, best, bpos, IF upd THEN <<r.pos, r.res>> ELSE fe)

(* ---- operator tables: the shunting-yard machine of operator_table.py ---- *)
\* state: pos; outer = _outer_checkpoint (end of the last complete operand with its postfix operators);
\* inner = _inner_checkpoint; opnds = _operand_stack; ops = _operator_stack of <<prec, assoc_id, value>>;
\* marker = _operator_marker (operators below it have their right operand); bad # "" = the real code would
\* loop forever or pop an empty stack.
OTLast(q) == q[Len(q)]
OTFront(q, n) == SubSeq(q, 1, Len(q) - n)

\* pop_operator()
OTPop(S) ==
    IF S.bad # "" THEN S
    ELSE IF S.ops = <<>> \/ S.opnds = <<>> THEN [S EXCEPT !.bad = "pop from an empty stack"]
    ELSE LET top == OTLast(S.ops)
             right == OTLast(S.opnds) IN
         IF top[2] # 0                                             \* _is_infix
         THEN (IF Len(S.opnds) < 2 THEN [S EXCEPT !.bad = "pop from an empty stack"]
               ELSE [S EXCEPT !.ops = OTFront(@, 1),
                              !.opnds = Append(OTFront(@, 2), <<"I", S.opnds[Len(S.opnds) - 1], top[3], right>>)])
         ELSE [S EXCEPT !.ops = OTFront(@, 1), !.opnds = Append(OTFront(@, 1), <<"P", top[3], right>>)]

\* while ops and ops[-1][0] < prec: pop_operator()        (a postfix operator closes everything that binds tighter)
RECURSIVE OTPopTighter(_, _)
OTPopTighter(S, prec) ==
    IF S.bad = "" /\ S.ops # <<>> /\ OTLast(S.ops)[1] < prec THEN OTPopTighter(OTPop(S), prec) ELSE S

\* the reduce loop that an infix operator of row `prec` triggers; returns <<state, has_conflict>>
RECURSIVE OTReduce(_, _)
OTReduce(S, prec) ==
    IF S.bad # "" \/ S.ops = <<>> THEN <<S, FALSE>>
    ELSE LET top == OTLast(S.ops) IN
         IF top[1] < prec \/ (top[1] = prec /\ top[2] = 1) THEN OTReduce(OTPop(S), prec)
         ELSE IF top[1] = prec /\ top[2] = 3 THEN <<[S EXCEPT !.pos = S.outer], TRUE>>   \* second non-associative operator
         ELSE <<S, FALSE>>

RECURSIVE OTPopAll(_)
OTPopAll(S) == IF S.bad = "" /\ S.ops # <<>> THEN OTPopAll(OTPop(S)) ELSE S

\* after the loop: commit what is complete; `r` = the registers as the last failing sub-expression left them
OTFinish(S, r) ==
    IF S.bad # "" THEN Reg(FALSE, <<"bad", S.bad>>, S.pos)
    ELSE IF S.opnds # <<>>
    THEN LET S1 == OTPopAll([S EXCEPT !.ops = SubSeq(@, 1, IF S.marker < Len(@) THEN S.marker ELSE Len(@))]) IN   \* a Python slice clamps
         IF S1.bad # "" THEN Reg(FALSE, <<"bad", S1.bad>>, S.pos)
         ELSE Reg(TRUE, S1.opnds[1], S1.pos)
    ELSE Reg(FALSE, r.res, S.pos)

\* utils.repeat(prefixes, inner_checkpoint): operator_stack.append(RESULT)
OTPrefixes(G, pre, txt, S) ==
    LET cps == CPS(G, pre)
        S1 == IF cps THEN [S EXCEPT !.inner = S.pos] ELSE S
        r == Run(G, pre, txt, S1.pos)
    IN IF ~AS(G, pre) /\ ~r.st THEN [S1 EXCEPT !.pos = IF cps THEN S1.inner ELSE r.pos]
       ELSE IF r.pos <= S.pos THEN [S1 EXCEPT !.bad = "prefix loop makes no progress"]
       ELSE OTPrefixes(G, pre, txt, [S1 EXCEPT !.pos = r.pos, !.ops = Append(@, <<r.res[2], r.res[3], r.res[4]>>)])

\* utils.repeat(postfixes, inner_checkpoint): close tighter operators, wrap the top operand
OTPostfixes(G, post, txt, S) ==
    LET cps == CPS(G, post)
        S1 == IF cps THEN [S EXCEPT !.inner = S.pos] ELSE S
        r == Run(G, post, txt, S1.pos)
    IN IF S.bad # "" THEN S
       ELSE IF ~AS(G, post) /\ ~r.st THEN [S1 EXCEPT !.pos = IF cps THEN S1.inner ELSE r.pos]
       ELSE IF r.pos <= S.pos THEN [S1 EXCEPT !.bad = "postfix loop makes no progress"]
       ELSE LET S2 == OTPopTighter([S1 EXCEPT !.pos = r.pos], r.res[2]) IN
            IF S2.bad # "" THEN S2
            ELSE IF S2.opnds = <<>> THEN [S2 EXCEPT !.bad = "pop from an empty stack"]
            ELSE OTPostfixes(G, post, txt,
                             [S2 EXCEPT !.opnds = Append(OTFront(@, 1), <<"Q", OTLast(S2.opnds), r.res[4]>>)])

\* one round of the outer `while True`
OTLoop(G, tbl, txt, S) ==
    LET pre == OTTagged(tbl, {"prefix"})
        opd == OTOperands(tbl)
        post == OTTagged(tbl, {"postfix"})
        inf == OTTagged(tbl, {"left", "right", "infix"})
        S1 == IF pre = OTNone THEN S ELSE OTPrefixes(G, pre, txt, S)
    IN IF S1.bad # "" THEN OTFinish(S1, Reg(FALSE, Err, S1.pos))
       ELSE LET S2 == IF CPS(G, opd) THEN [S1 EXCEPT !.inner = S1.pos] ELSE S1
                x == Run(G, opd, txt, S2.pos) IN
            IF ~AS(G, opd) /\ ~x.st
            THEN \* no operand: go back behind the last complete operand if there is one (an operator may have been consumed)
                 OTFinish([S2 EXCEPT !.pos = IF S2.opnds # <<>> THEN S2.outer ELSE x.pos], x)
            ELSE LET S3 == [S2 EXCEPT !.pos = x.pos, !.opnds = Append(@, x.res)]
                     S4 == IF post = OTNone THEN S3 ELSE OTPostfixes(G, post, txt, S3)
                     S5 == [S4 EXCEPT !.marker = Len(S4.ops), !.outer = S4.pos]
                 IN IF S5.bad # "" \/ inf = OTNone THEN OTFinish(S5, x)
                    ELSE LET o == Run(G, inf, txt, S5.pos) IN
                         IF ~AS(G, inf) /\ ~o.st
                         THEN OTFinish([S5 EXCEPT !.pos = IF CPS(G, inf) THEN S5.outer ELSE o.pos], o)
                         ELSE IF o.pos <= S.pos THEN OTFinish([S5 EXCEPT !.bad = "outer loop makes no progress"], o)
                         ELSE LET rd == OTReduce([S5 EXCEPT !.pos = o.pos], o.res[2])
                                  S6 == rd[1] IN
                              IF rd[2] \/ S6.bad # "" THEN OTFinish(S6, o)
                              ELSE OTLoop(G, tbl, txt,
                                          [S6 EXCEPT !.marker = Len(S6.ops),
                                                     !.ops = Append(@, <<o.res[2], o.res[3], o.res[4]>>)])

(* ---- the fragment of the grammar language that is transcribed ---- *)
RECURSIVE InVM(_)
InVM(e) ==
    CASE e[1] \in {"str", "stri", "rx", "byte", "fail", "back", "ref"} -> TRUE
      [] e[1] \in {"seq", "choice", "skip", "longest"} -> \A k \in 1..Len(e[2]) : InVM(e[2][k])
      [] e[1] \in {"left", "right"} -> InVM(e[2]) /\ InVM(e[3])
      [] e[1] \in {"opt", "expect", "not"} -> InVM(e[2])
      [] e[1] = "list" -> InVM(e[2]) /\ e[3][1] \in {"none", "n"} /\ e[4][1] \in {"none", "n"}
      [] e[1] = "sep" -> InVM(e[2]) /\ InVM(e[3])
      [] e[1] = "optable" -> InVM(e[2]) /\ \A r \in 1..Len(e[3]) : \A k \in 1..Len(e[3][r][2]) : InVM(e[3][r][2][k])
      [] OTHER -> FALSE

GInVM(G) ==
    /\ \A k \in 1..Len(G.ign) : InVM(G.ign[k])
    /\ \A r \in DOMAIN G.rules :
          G.rules[r].kind = "rule" /\ G.rules[r].params = <<>> /\ InVM(G.rules[r].body)

(* ---- refinement ---- *)
\* the registers after running e at 0 are what PegSem says (value and end on success; failure otherwise)
Refines(G, e, txt) ==
    LET s == Eval(G, e, EmptyEnv, txt, 0)
        r == Run(G, e, txt, 0)
    IN s.t = "ill" \/ (r.st = (s.t = "ok") /\ (r.st => (r.res = s.v /\ r.pos = s.e)))

\* the three clauses below with one evaluation of meaning and machine (for instances with many texts)
\* (defined here, not in the instances: modules that also extend Fam see Fam!Run under the name Run)
VMClauses(G, e, txt) ==
    LET s == Eval(G, e, EmptyEnv, txt, 0)
        r == Run(G, e, txt, 0)
    IN s.t = "ill" \/ ( /\ r.st = (s.t = "ok") /\ (r.st => (r.res = s.v /\ r.pos = s.e))
                         /\ ((~r.st /\ ~CPS(G, e)) => r.pos = 0)
                         /\ (r.st \/ r.res[1] # "bad") )

\* the flags are sufficient: whoever relies on "cannot partially succeed" finds the position where it was
FlagSound(G, e, txt) ==
    LET s == Eval(G, e, EmptyEnv, txt, 0)
        r == Run(G, e, txt, 0)
    IN s.t = "ill" \/ ((~r.st /\ ~CPS(G, e)) => r.pos = 0)

\* the machine never pops an empty stack and never spins on a well-formed case
NoBadState(G, e, txt) ==
    LET s == Eval(G, e, EmptyEnv, txt, 0)
        r == Run(G, e, txt, 0)
    IN s.t = "ill" \/ r.st \/ r.res[1] # "bad"
=============================================================================
