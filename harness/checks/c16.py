"""C16 - transform rewrites bottom-up, once per node, preserving metadata."""
import engine
import objcheck
import tlc
from common import MachineryFailure


def make_callbacks(mod, log):
    """Real callbacks for the tags of Objs!ApplyCb; every call is logged."""
    def is_obj(v, cls=None):
        return hasattr(v, '_fields') and hasattr(v, '_metadata') and (cls is None or type(v).__name__ == cls)

    def tagged(o):
        o._metadata.made_by_callback = True
        return o

    def mk(tag, fn):
        def cb(v):
            log.append([tag, objcheck.expand(v)])
            return fn(v)
        return cb
    return {
        'id': mk('id', lambda v: v),
        # the identity, computed by a transform of its own (with another callback) run inside this callback
        'Nest': mk('Nest', lambda v: (mod.transform([v], lambda n: n), v)[1]),
        'AtoZ': mk('AtoZ', lambda v: mod.Z() if is_obj(v, 'A') else v),
        'Acopy': mk('Acopy', lambda v: tagged(mod.A(v.x)) if is_obj(v, 'A') else v),
        'Bswap': mk('Bswap', lambda v: mod.B(v._r, v.l) if is_obj(v, 'B') else v),
        'Achild': mk('Achild', lambda v: v.x if is_obj(v, 'A') else v),
        'Zleaf': mk('Zleaf', lambda v: None if is_obj(v, 'Z') else v),
        'Blist': mk('Blist', lambda v: [v.l, v._r] if is_obj(v, 'B') else v),
    }


def via_fields_and_lists(root):
    """The objects transform reaches: through fields and lists only."""
    out, stack = [], [root]
    while stack:
        x = stack.pop()
        if isinstance(x, list):
            stack.extend(x)
        elif hasattr(x, '_fields') and hasattr(x, '_metadata'):
            out.append(x)
            stack.extend(getattr(x, f) for f in type(x)._fields)
    return out


def stamp(root, mod, builder=None):
    """Give every object of the input tree a recognisable position_info: its identity (path) in the tree."""
    n = 0
    for o in mod.visit(root):
        n += 1
        ident = builder.ident.get(id(o)) if builder is not None else None
        o._metadata.position_info = ('span', tuple(ident) if ident is not None else n)
    return n


def origins_of(v):
    """The origin each object of a real result carries, in the shape of Objs!BottomUpO (4th component)."""
    if isinstance(v, list):
        return ['list', [origins_of(x) for x in v]]
    if isinstance(v, tuple) and not hasattr(v, '_fields'):
        return ['tuple', [origins_of(x) for x in v]]
    if isinstance(v, dict):
        return ['dict', [[k, origins_of(x)] for k, x in v.items()]]
    if hasattr(v, '_fields') and hasattr(v, '_metadata'):
        pi = getattr(v._metadata, 'position_info', None)
        if pi is None:
            org = ['own'] if len(v._metadata) else ['none']
        else:
            org = list(pi[1]) if isinstance(pi[1], tuple) else ['?', pi[1]]
        return ['obj', type(v).__name__, [origins_of(getattr(v, f)) for f in type(v)._fields], org]
    return strip_n(objcheck.expand(v))


def meta_of(o):
    return getattr(o._metadata, 'position_info', None)


def parsed_worker(case):
    """Trees that come from parse(): class instances carry positions, the Infix / Prefix / Postfix nodes of an operator
    table carry none.  A replacement that is an already parsed node without a position of its own inherits the position
    of the node it replaces; one that has a position keeps it; the input tree is never modified."""
    import sourcer
    g = sourcer.Grammar('start = E\nE = Atom between {\n    prefix: "-"\n    left: "+"\n}\nAtom = Group | Num\n'
                        'class Group {\n    body: "(" >> E << ")"\n}\nclass Num {\n    d: /[0-9]/\n}\n')
    out = {}
    try:
        t = g.parse('(1+2)+(3)+(-4)')
        snap = [(id(n), type(n).__name__, repr(getattr(n._metadata, 'position_info', None))) for n in g.visit(t)]
        groups = [n for n in g.visit(t) if type(n).__name__ == 'Group']
        gpos = {id(n.body): n._metadata.position_info for n in groups}
        had = {id(n.body): getattr(n.body._metadata, 'position_info', None) for n in groups}
        r = g.transform(t, lambda n: n.body if type(n).__name__ == 'Group' else n)      # unwrap every group
        unwrapped = [n for n in g.visit(r) if id(n) in gpos]
        out['unwrapped'] = len(unwrapped)
        out['inherits'] = [getattr(n._metadata, 'position_info', None) == (had[id(n)] if had[id(n)] else gpos[id(n)])
                           for n in unwrapped]
        out['kinds'] = sorted(type(n).__name__ for n in unwrapped)
        out['input_unchanged'] = snap == [(id(n), type(n).__name__, repr(getattr(n._metadata, 'position_info', None)))
                                          for n in g.visit(t)] or 'shared'
    except BaseException as e:  # noqa
        out['exc'] = [type(e).__name__, str(e)[:200]]
    return {'id': case['id'], 'desc': None, 'build': ['ok'], 'obs': out}


engine.register('parsed_worker', parsed_worker)


def xform_worker(case):
    mod = objcheck.module()
    out = []
    for t, cbvecs in zip(case['trees'], case['cbs']):
        res = []
        for cbs in cbvecs:
            b = objcheck.Builder(mod)
            root = b.build(t, [])
            stamp(root, mod, b)
            before = objcheck.expand(root)
            before_meta = [(id(o), meta_of(o)) for o in mod.visit(root)]
            log = []
            table = make_callbacks(mod, log)
            try:
                r = mod.transform(root, *[table[c] for c in cbs])
                after = objcheck.expand(root)
                after_meta = [(id(o), meta_of(o)) for o in mod.visit(root)]
                # metadata rule: with structure-preserving callbacks every result object carries the span
                # of the node it stands for
                meta_ok = None
                if cbs in (['id'], ['Bswap'], ['id', 'Bswap']) :
                    want = [meta_of(o) for o in mod.visit(root)] if cbs == ['id'] else None
                    got = [meta_of(o) for o in mod.visit(r)]
                    if cbs == ['id']:
                        meta_ok = (got == want)
                    else:
                        meta_ok = all(m is not None for m in got)
                if cbs[0] == 'Acopy':
                    # every parent is rebuilt from its transformed children: each A in the result is a callback's copy
                    meta_ok = all(getattr(o._metadata, 'made_by_callback', None) for o in via_fields_and_lists(r)
                                  if type(o).__name__ == 'A')
                if cbs == ['AtoZ']:
                    got = [meta_of(o) for o in mod.visit(r)]
                    meta_ok = all(m is not None for m in got)
                res.append(['ok', objcheck.expand(r), log, before == after and before_meta == after_meta, meta_ok,
                            origins_of(r)])
            except BaseException as e:  # noqa
                res.append(['exc', type(e).__name__, str(e)[:150]])
        out.append(res)
    return {'id': case['id'], 'desc': None, 'build': ['ok'], 'obs': out}


engine.register('xform_worker', xform_worker)


def strip_n(v):
    """Objs!Expand keeps only the kind of a leaf; do the same for expected values (drop object numbers)."""
    if isinstance(v, list):
        if v and v[0] == 'leaf':
            return v[:2]
        return [strip_n(x) for x in v]
    return v


def run(chk):
    chk.rule = ('cases = (tree, callback vector); TLC (MC_C15 in transform mode) enumerates the trees of the C15 family and '
                'ten callback vectors (identity; replace a class by a fresh object without metadata, by an existing child, '
                'by a leaf, by a list; a new object per node; two callbacks in sequence) and emits result and call log of '
                'the declarative bottom-up rewrite (Objs!BottomUp); the harness runs the real transform with logging '
                'callbacks on real objects and compares result, call log (order, once per occurrence, parents rebuilt from '
                'transformed children first), input unchanged afterwards, and span metadata of the result nodes; '
                'non-trivial = some callback changes some node; distinct by (tree, callbacks)')
    chk.assumptions += ['transform looks through fields and lists only (tuples and dicts are leaves), occurrence based']
    trees = []
    r = tlc.run('MC_C15', 'MC_C15_xform_' + chk.tier, on_json=trees.append, timeout_s=3000)
    chk.add_tlc(r, 'MC_C15(xform)')
    if not r.ok or not trees:
        raise MachineryFailure('MC_C15 did not complete')
    cases = []
    for i in range(0, len(trees), 25):
        part = trees[i:i + 25]
        cases.append({'id': i, 'trees': [x['t'] for x in part], 'cbs': [[y['cbs'] for y in x['xf']] for x in part]})
    prec = engine.run_real([{'id': 0}], fn='parsed_worker', batch=1)[0]['obs']
    chk.traces += 1
    chk.count(['parsed tree, unwrap'], True)
    if 'exc' in prec:
        chk.violation('transform on a parsed tree raised %s' % (prec['exc'],), {'observed': prec})
    else:
        # Group(Infix) -> the Infix inherits the group's position; Group(Num) and Group(Prefix(Num)): Num keeps its own
        if prec['unwrapped'] != 3 or prec['kinds'] != ['Infix', 'Num', 'Prefix'] or not all(prec['inherits']):
            chk.violation('unwrapping the groups of a parsed tree: a replacement without a position of its own must inherit the '
                          'position of the node it replaces, one with a position keeps it: %s' % (prec,), {'observed': prec})
    recs = engine.run_real(cases, fn='xform_worker', batch=1)
    for c in cases:
        rec = recs[c['id']]
        if rec['build'][0] != 'ok':
            raise MachineryFailure('xform worker: %r' % (rec['build'],))
        for x, res in zip(trees[c['id']:c['id'] + 25], rec['obs']):
            for y, o in zip(x['xf'], res):
                chk.traces += 1
                want_res, want_log = strip_n(y['res']), [[l[0], strip_n(l[1])] for l in y['log']]
                chk.count([x['t'], y['cbs']], want_res != strip_n(x['value']))
                where = 'tree %s callbacks %s' % (x['t'], y['cbs'])
                if len(chk.samples) < 3 and want_res != strip_n(x['value']) and len(want_log) > 2:
                    chk.sample({'tree': x['t'], 'callbacks': y['cbs'], 'expected_result': want_res,
                                'expected_calls': want_log[:4], 'observed': o[:2]})
                if o[0] != 'ok':
                    chk.violation('transform raised %s | %s' % (o[1:], where), {'tree': x['t'], 'cbs': y['cbs'], 'observed': o})
                    continue
                if o[1] != want_res:
                    chk.violation('transform result differs | %s | expected %s | observed %s' % (where, want_res, o[1]),
                                  {'tree': x['t'], 'cbs': y['cbs'], 'expected': want_res, 'observed': o[1]})
                elif o[2] != want_log:
                    chk.violation('callback call log differs | %s | expected %s | observed %s' % (where, want_log, o[2]),
                                  {'tree': x['t'], 'cbs': y['cbs'], 'expected': want_log, 'observed': o[2]})
                elif not o[3]:
                    chk.violation('the input tree was modified by transform | %s' % where, {'tree': x['t'], 'cbs': y['cbs']})
                elif len(o) > 5 and o[5] != strip_n(y['origins']):
                    chk.violation('position metadata of the result nodes: every result object must carry the metadata of '
                                  'the node it stands for | %s | expected origins %s | observed %s'
                                  % (where, strip_n(y['origins']), o[5]),
                                  {'tree': x['t'], 'cbs': y['cbs'], 'expected': y['origins'], 'observed': o[5]})
                elif o[4] is False:
                    chk.violation('result nodes are not the transformed ones / span metadata not carried over | %s' % where,
                                  {'tree': x['t'], 'cbs': y['cbs']})
