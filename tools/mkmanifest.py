#!/usr/bin/env python3
"""Regenerate MANIFEST.json from the table below (one source of truth for the interface)."""
import json
import os

VERIF = os.path.dirname(os.path.dirname(os.path.abspath(__file__)))

PEG = 'pegsem-replay'
CHECKS = {
 'C01': dict(engine=PEG, cat='model_checking', ref='DESIGN.md §7 C01',
    text='TLC enumerates every parent/child combination of the core expression forms in every continuation context '
         '(MC_C01), model-checks the laws of the reference semantics (LawSane, LawShift) on each member, and every '
         'enumerated behaviour (grammar x all short inputs) is replayed into the real generator and parser; seeded '
         'random deeper grammars (text and bytes mode) are judged by the same specification through OracleVM.tla; the '
         'register protocol of the generated code (PegVM) is model-checked to refine the semantics (MC_PegVM, OracleVM) '
         'and its static flags are compared with those of the real expression objects',
    note='trusted: spec/PegSem.tla + Rx.tla as the documented meaning, TLC, CPython re on the Rx subset; bound: shapes '
         'of depth <= 2 exhaustively (+ random depth 3-4), inputs <= 4-5 characters',
    tech='TLA+ reference semantics (PegSem) enumerated by TLC; behaviours replayed into the implementation'),
 'C02': dict(engine=PEG, cat='model_checking', ref='DESIGN.md §7 C02',
    text='TLC enumerates all operator tables of 1-2 (thorough 3) rows over all associativities, colliding spellings, '
         'operand kinds and enclosing contexts (MC_C02) with all token strings up to the bound, checks LawFlatten '
         '(tree read in order = consumed input) in every state, and replays every behaviour; random 3-4 row tables '
         'with long sentences are judged by the same Pratt-style definition; the shunting-yard machine of '
         'operator_table.py, transcribed in PegVM (two stacks, commit marker, checkpoints), is model-checked to '
         'compute that definition on every table of one or two rows and every input (LawVMRefines: refinement, sufficiency of '
         'the static flags, no empty pop / spinning)',
    note='trusted: the Pratt-style definition PegSem!OpExpr as the reading of the property; bound: <= 3 rows '
         'exhaustively, token strings <= 5-6 (+ random up to 14 tokens)',
    tech='TLA+ Pratt reference (OpExpr/OpLed) and TLA+ transcription of the shunting-yard machine (PegVM!OTLoop), refinement checked by TLC; TLC-enumerated behaviours replayed into the implementation'),
 'C03': dict(engine=PEG, cat='model_checking', ref='DESIGN.md §7 C03',
    text='TLC enumerates element x separator x every bound form 0..3 x bounds read from the input (let, class '
         'let-field, template parameter) x all accepted Sep option vectors x enclosing contexts (MC_C03), checks '
         'LawBounds/LawSepShape, and every behaviour is replayed',
    note='trusted: PegSem!EvalList/EvalSep; bound: bounds 0..3, inputs <= 5-6 characters',
    tech='TLA+ reference semantics enumerated by TLC; behaviours replayed into the implementation'),
 'C04': dict(engine=PEG, cat='model_checking', ref='DESIGN.md §7 C04',
    text='TLC enumerates grammar shapes x ignore sets x declaration variants x entry (MC_C04), model-checks the '
         'lengthening law, and replays every behaviour; rest-capturing regexes and look-behind probes make the '
         'stopping point of every skip observable; the generated code\'s skip mechanism (skip after literals, _ignored, '
         'leading skip) transcribed in PegVM is model-checked to compute the meaning (LawVMRefines)',
    note='trusted: the skip clause of PegSem (after every successful string/regex/byte literal anywhere, once before '
         'the start rule); bound: 16 shapes x 3 ignore sets, inputs <= 4-5 characters + hand-picked longer ones',
    tech='TLA+ reference semantics enumerated by TLC; behaviours replayed into the implementation'),
 'C05': dict(engine=PEG, cat='model_checking', ref='DESIGN.md §7 C05',
    text='TLC enumerates binding form x use form x abandon-and-rebind context (MC_C05: choice whose first alternative '
         'binds and fails, repetition, recursion, shadowing, siblings) x bound name (plain / also a builtin) on all short '
         'inputs and replays every behaviour, each grammar in two closure spellings',
    note='trusted: environments of PegSem, closed inline-Python repertoire (PyEval/PyCall); bound: 6 binding forms x '
         '10 use forms x 6 contexts',
    tech='TLA+ reference semantics enumerated by TLC; behaviours replayed into the implementation'),
 'C06': dict(engine=PEG, cat='model_checking', ref='DESIGN.md §7 C06',
    text='TLC enumerates call sites (literal, compound, data-dependent, value, keyword, unhashable, nested, recursive, '
         'same template at the same position) x {named, unnamed} (MC_C06), model-checks call = expansion '
         '(LawExpansion) and replays every behaviour, incl. the curried Python entry points of one-parameter classes',
    note='trusted: substitution semantics of PegSem (closures over the call-site environment); bound: 28 call sites',
    tech='TLA+ reference semantics enumerated by TLC; behaviours replayed into the implementation'),
 'C08': dict(engine=PEG, cat='model_checking', ref='DESIGN.md §7 C08',
    text='TLC enumerates grammars x every rule/class as entry x every text incl. empty x every offset (MC_C08), '
         'model-checks shift invariance, and every run is replayed with fullparse True/False through parse and '
         'R.parse/C.parse; any exception other than ParseError/PartialParseError is a violation',
    note='trusted: PegSem!Outcome; bound: 4 grammars, texts <= 4-5',
    tech='TLA+ reference semantics enumerated by TLC; behaviours replayed into the implementation'),
 'C10': dict(engine=PEG, cat='model_checking', ref='DESIGN.md §7 C10',
    text='TLC enumerates class grammars x entries x texts with blanks/line breaks x offsets (MC_C10), model-checks '
         'span nesting, converts raw spans with Report!Finalize, and every instance of every replayed result is '
         'compared (index, line, column)',
    note='trusted: PegSem spans + Report.tla; bound: 5 grammars, texts <= 4-5',
    tech='TLA+ reference semantics + Report module enumerated by TLC; behaviours replayed into the implementation'),
}

PK = 'packrat-trace'
CHECKS.update({
 'C07': dict(engine=PK, cat='model_checking', ref='DESIGN.md §7 C07',
    text='Packrat.tla models the _run driver (explicit stack, per-call memo); TLC model-checks AtMostOnce, NothingLost, '
         'MemoOwn, MemoBound over every abstract program of 4 rules and every interleaving of 2 calls; every behaviour of '
         'the single-call model is replayed into the real driver (the harness builds the grammar realising the program '
         'and the hook-recorded event sequence must equal the model\'s); driver traces (hook H1) and hook-free probe '
         'traces of sharing-heavy and random grammars are validated by TLC against Trace_Packrat',
    note='trusted: hook H1 placement (after each state change) or, without it, inline-Python probes; bound: 4 rules x 3 '
         'requests exhaustively; traces of inputs up to a few hundred characters',
    tech='TLA+ state machine of the driver; model behaviours replayed + recorded traces validated by TLC (trace spec)'),
 'C17': dict(engine=PEG, cat='model_checking', ref='DESIGN.md §7 C17',
    text='TLC enumerates inner expression x transparent wrapper x every depth 1..45 (thorough 130) x {unnamed, named}, '
         'model-checks LawWrapTransparent, computes the expected value on the really nested expression and every '
         'behaviour is replayed; inputs nested 10^4-10^5 deep are executed through a rule, a template, a class and a '
         'sequence and their driver traces validated by TLC (constant host stack depth)',
    note='trusted: PegSem; the 10^4-10^5 deep expectations extrapolate the law model-checked to small depth',
    tech='TLA+ reference semantics enumerated by TLC over every nesting depth; behaviours replayed; driver traces validated'),
 'C18': dict(engine=PK, cat='model_checking', ref='DESIGN.md §7 C18',
    text='MC_Packrat model-checks Isolation and OutcomeIndependent over all interleavings (overlap, nesting, abort) of 2 '
         'calls; seeded histories on one real module (sequential mixes of succeeding, failing and user-code-raising calls, '
         '8 threads with 1 microsecond switch interval, nested parses from inline Python, interleaved Grammar() incl. '
         'extending / name-reusing ones) are compared call by call with the isolated outcome from PegSem, and the '
         'interleaved driver traces are validated by TLC against Trace_Packrat',
    note='trusted: PegSem via Oracle.tla for the isolated outcomes; OS-level preemption points are sampled, not enumerated',
    tech='TLA+ multi-call driver model (interleavings exhaustive) + trace validation of real threaded executions'),
})

OBJ = 'objects-replay'
CHECKS.update({
 'C09': dict(engine='report-replay', cat='model_checking', ref='DESIGN.md §7 C09',
    text='ExcerptVM.tla transcribes the four-regime excerpt code, Report.tla defines line/column; TLC (MC_C09) checks the '
         'acceptance relation (caret under text[index], excerpt on one line) and the line/column counter in every state '
         'of the (lines before, line length, column, last line) space and emits the expected position; the harness makes '
         'a real grammar fail / stop at exactly that offset and checks ParseError.position, '
         'PartialParseError.last_position and both messages, also for bytes input',
    note='trusted: Report.tla; bound: line length <= 150 (thorough 420), 0/1/3 preceding lines; index within [pos, far] '
         'is decided by the C01/C08 replays',
    tech='TLA+ transcription of the excerpt mechanism model-checked against an acceptance relation; states replayed'),
 'C14': dict(engine=OBJ, cat='model_checking', ref='DESIGN.md §7 C14',
    text='TLC (MC_C15, value mode) enumerates all trees of the bounded family and emits the plain value each denotes '
         '(Objs!Expand); the harness compares real ==, !=, hash on pairs of independently built trees with equality of '
         'those values, and checks _asdict, _replace, deepcopy, pickle, eval(repr) on every tree and on parsed objects',
    note='trusted: Objs!Eq as the meaning of ==; bound: trees of depth <= 2 (thorough 3), arities 0..2',
    tech='TLA+ value model (Objs) enumerated by TLC; operations replayed on real objects'),
 'C15': dict(engine=OBJ, cat='model_checking', ref='DESIGN.md §7 C15',
    text='Walk.tla transcribes the explicit-stack loops of visit and traverse; TLC checks them against the declarative '
         'Objs!Preorder / Objs!Events for every tree of the family (all CPython sharing kinds of leaves, shared '
         'sub-structures) and emits the expected sequences; the harness compares list(visit) by identity and '
         'list(traverse) event by event on real objects; chains of 10^4-10^5 nodes are executed',
    note='trusted: Objs!Preorder/Events as the stated order; bound: depth <= 2 (thorough 3)',
    tech='TLA+ mechanism (Walk) refines declarative spec (Objs), TLC-enumerated trees replayed on real objects'),
 'C16': dict(engine=OBJ, cat='model_checking', ref='DESIGN.md §7 C16',
    text='TLC (MC_C15, transform mode) emits result and callback log of the declarative bottom-up rewrite '
         '(Objs!BottomUp) for every tree x ten callback vectors; the harness runs the real transform with logging '
         'callbacks and compares result, call order/count, input unchanged, and span metadata of result nodes',
    note='trusted: Objs!BottomUp; bound: depth <= 2 (thorough 3), 10 callback vectors',
    tech='TLA+ declarative rewrite enumerated by TLC; behaviours replayed on real objects'),
})

CHECKS.update({
 'C13': dict(engine='modules-replay', cat='model_checking', ref='DESIGN.md §7 C13',
    text='Modules.tla flattens a chain of modules into one PegSem grammar (late binding, super = the definition the '
         'writing module inherits, ignore sets united); TLC (MC_C13) enumerates chains of 2-3 modules with every rule '
         'inherited / overridden / overridden with super / new, ignore in base and/or derived, checks FrameLaw and '
         'computes every entry x text through every module; the harness replays creation/use histories (each module used '
         'before and after its descendants exist, the base re-created under the same name and extended again)',
    note='trusted: Modules!Flat as the stated meaning; inherited entry-point objects (B.R.parse with R defined in an '
         'ancestor) and derived-only ignore are observed, not judged; bound: chains <= 3, inputs <= 3-4',
    tech='TLA+ module-flattening semantics enumerated by TLC; creation/use histories replayed into the implementation'),
})

CHECKS.update({
 'C11': dict(engine=PEG, cat='model_checking', ref='DESIGN.md §7 C11',
    text='MC_C11 enumerates the configuration lattice ({named, unnamed} x include_source x saved-and-executed source x '
         'compiled once/twice; ConfigIndependent); a feature-covering slice of the TLC families of C02-C06, C10, C17 is '
         'replayed under every configuration, the saved _source_code in a fresh `python -I -S` interpreter whose import '
         'log must stay inside the standard library; every configuration must show the spec outcome and all must agree',
    note='trusted: PegSem expectations of the source families; bound: ~150 grammars x 12 configurations x <= 24 inputs',
    tech='TLA+ configuration lattice + reference semantics; every configuration replayed into the implementation'),
})

CHECKS.update({
 'C19': dict(engine=PEG, cat='model_checking', ref='DESIGN.md §7 C19',
    text='Meta.tla gives the grouping of unparenthesised operator chains (precedence climbing over the rows of '
         'grammar.txt; LawLeftAssoc/LawLevels model-checked); TLC (MC_C19) enumerates abstract expressions x five spelling '
         'vectors (operator vs constructor forms per node, = : =>, newline vs ;, comments, parentheses, line breaks, bare '
         'expression) and operator chains of 2-3 operators over every row; the harness renders the spelling / chain text '
         'and the outcome must equal PegSem on the abstract expression',
    note='trusted: Meta!Group as the reading of grammar.txt, the renderer as producing only documented spellings; bound: '
         'parent/child pairs, chains <= 3 operators, inputs <= 4-5',
    tech='TLA+ precedence/spelling model enumerated by TLC; rendered descriptions replayed into the implementation'),
 'C20': dict(engine=PEG, cat='model_checking', ref='DESIGN.md §7 C20',
    text='TLC (MC_C20) applies every renaming (identifier of a role-covering base grammar -> pool name) to the abstract '
         'grammar, model-checks LawRenaming (Eval(rho(g)) = rho(Eval(g))) and computes the outcome of the renamed grammar; '
         'pool = temporaries look-alikes + builtins + constructor names + every identifier of the generated source; the '
         'harness compiles the renamed description and compares; builtin-shadowing findings are listed per (name, role)',
    note='trusted: PegSem; bound: single-identifier renamings of one base grammar (14 roles) x pool (~110 fixed + dynamic)',
    tech='TLA+ renaming law + reference semantics enumerated by TLC; renamed descriptions replayed into the implementation'),
})

CHECKS.update({
 'C12': dict(engine='bootstrap-trace', cat='model_checking', ref='DESIGN.md §7 C12',
    text='Bootstrap.tla models the bootstrap history (generate / self-parse / install / generate again, comparisons of '
         'generations 0 and 1 on descriptions) with the invariants FixedPoint, SelfHosting, SameLanguage; the history is '
         'really executed in a scratch copy of the working tree (generation 1 compiled from grammar.txt, installed, '
         'generation 2 regenerated in a fresh interpreter; every Grammar(...) string of tests/examples/README/docs, '
         'grammar.txt, random rendered grammars and thousands of token-level corruptions parsed by both generations) and '
         'the recorded events are validated by TLC against Trace_Bootstrap',
    note='the TLA+ part is thin (history + invariants), the weight is the recorded execution; trees compared by repr, '
         'rejections by class and index',
    tech='TLA+ history model + trace validation of a recorded bootstrap execution'),
})

PENDING = {}


def main():
    props = [json.loads(l) for l in open(os.path.join(VERIF, 'properties.jsonl'))]
    extra = {}
    p2 = os.path.join(VERIF, 'tools', 'manifest_extra.json')
    if os.path.exists(p2):
        extra = json.load(open(p2))
    checks_tbl = dict(CHECKS)
    checks_tbl.update(extra.get('checks', {}))
    m = {
        'version': 1,
        'setup_cmd': './setup.sh',
        'hooks': {
            'guard': 'SOURCER_VERIF',
            'enable': 'SOURCER_VERIF=1 in the environment of the process that calls sourcer.Grammar (read when the '
                      'module source is generated); checks set it themselves',
            'baseline_off_cmd': 'cd /repo && env -u SOURCER_VERIF /venv/bin/python -m pytest -ra -q -p no:cacheprovider '
                                '--timeout=900 --continue-on-collection-errors',
            'source_commits': ['e145124', '35c4033'],
            'add_only': True,
        },
        'engines': [
            {'name': PEG, 'path': 'harness/pegcheck.py',
             'serves_properties': sorted(k for k, v in checks_tbl.items() if v['engine'] == PEG),
             'kind_free_text': 'TLC enumerates bounded grammar families and evaluates the reference semantics '
                               'spec/PegSem.tla on every input; every behaviour is replayed into the real generator '
                               'and parser and compared; random deeper cases go through spec/Oracle.tla'},
            {'name': PK, 'path': 'harness/tracecheck.py',
             'serves_properties': sorted(k for k, v in checks_tbl.items() if v['engine'] == PK),
             'kind_free_text': 'spec/Packrat.tla (the _run driver as a state machine) model-checked by TLC; its behaviours '
                               'are replayed into the real driver and traces recorded through the SOURCER_VERIF hook / '
                               'inline-Python probes are validated by TLC against spec/Trace_Packrat.tla'},
            {'name': OBJ, 'path': 'harness/objcheck.py', 'serves_properties': ['C14', 'C15', 'C16'],
             'kind_free_text': 'spec/Objs.tla (values with identity) and spec/Walk.tla (explicit-stack machines) enumerated '
                               'and checked by TLC; trees and expected sequences replayed on real parsed objects'},
            {'name': 'modules-replay', 'path': 'harness/checks/c13.py', 'serves_properties': ['C13'],
             'kind_free_text': 'spec/Modules.tla flattens module chains into PegSem grammars; histories replayed'},
            {'name': 'bootstrap-trace', 'path': 'harness/checks/c12.py', 'serves_properties': ['C12'],
             'kind_free_text': 'recorded bootstrap history validated by TLC against spec/Trace_Bootstrap.tla'},
            {'name': 'report-replay', 'path': 'harness/checks/c09.py', 'serves_properties': ['C09'],
             'kind_free_text': 'spec/ExcerptVM.tla + spec/Report.tla model-checked; every state replayed as a real error'},
        ] + extra.get('engines', []),
        'checks': [],
        'not_applicable': [],
        'notes': 'Interface: ./check <ID> quick|thorough, ./check replay <path>. See DESIGN.md.',
    }
    for p in props:
        pid = p['id']
        if pid in checks_tbl:
            c = checks_tbl[pid]
            m['checks'].append({
                'property_id': pid,
                'quick_cmd': './check %s quick' % pid,
                'thorough_cmd': './check %s thorough' % pid,
                'evidence_file': '/verif/evidence/%s.json' % pid,
                'replay_cmd_template': './check replay {path}',
                'engine': c['engine'],
                'level_claimed': {'category': c['cat'], 'text': c['text'], 'design_ref': c['ref']},
                'level_note': c['note'],
                'technique': c['tech'],
            })
        else:
            m['not_applicable'].append({'property_id': pid, 'reason': extra.get('pending', {}).get(
                pid, 'check under construction (specification module planned in DESIGN.md); not claimed yet')})
    with open(os.path.join(VERIF, 'MANIFEST.json'), 'w') as f:
        json.dump(m, f, indent=1)
    print('MANIFEST.json: %d checks, %d not claimed' % (len(m['checks']), len(m['not_applicable'])))


if __name__ == '__main__':
    main()
