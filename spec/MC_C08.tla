------------------------------- MODULE MC_C08 -------------------------------
(***************************************************************************)
(* C08 - parse has exactly three outcomes, fixed by the start rule's match.*)
(* Family: grammars mixing plain rules, classes (also ones that can match  *)
(* nothing), lookahead, repetition and ignore declarations; EVERY rule and *)
(* class is used as entry point, on every text up to the bound (including  *)
(* the empty text), from every start offset.  The harness calls each run   *)
(* with fullparse = True and False and through module-level parse as well  *)
(* as R.parse / C.parse.  Law: parsing from offset k equals parsing the    *)
(* suffix from 0 with positions shifted by k.                              *)
(***************************************************************************)
EXTENDS Fam

CONSTANTS Tier

sp == 32
A1 == Str(<<a>>)
B1 == Str(<<b>>)

Rules1 ==
    [ start |-> Rule(Seq2(Ref("X"), Opt(Ref("Y")))),
      X     |-> Rule(Ch2(Str(<<a, b>>), A1)),
      Y     |-> Rule(Plus(B1)),
      K     |-> Class(<<Field("k", Ref("X")), Field("rest", Star(Ref("Y")))>>),
      N     |-> Class(<<Field("n", Opt(Str(<<b, b>>)))>>),                \* can match nothing
      Z     |-> Class(<<>>),                                              \* no members at all
      E     |-> Rule(Str(<<>>)),
      L     |-> Rule(Right(Expect(A1), Star(A1))),
      M     |-> Rule(Seq2(Not(B1), Opt(Ref("K")))),
      F     |-> Rule(Ch2(Seq2(A1, FailE), B1)),
      Sh    |-> Rule(Seq2(Expect(Ref("K")), Ref("K"))),           \* the memoised instance occurs twice in the result
      \* regular expressions that match the empty string by themselves and still fail in context: /(?!a)[ab]*/ , /(?!b)/
      G1    |-> Rule(Rgx(RxCat2(<<"la", Cls(<<a>>), FALSE>>, RxStarG(Cls(<<a, b>>))))),
      G2    |-> Rule(Seq2(Star(Seq2(Rgx(<<"la", Cls(<<b>>), FALSE>>), Ref("X"))), Opt(Ref("Y")))) ]

Rules2 ==
    [ start |-> Rule(Star(Ref("Item"))),
      Item  |-> Rule(Ch2(Ref("P"), Ref("W"))),
      W     |-> Rule(Rgx(RxPlus(Cls(<<a, b>>)))),
      P     |-> Class(<<Field("open", Str(<<40>>)), Field("body", Star(Ref("Item"))), Field("close", Str(<<41>>))>>),
      Q     |-> Class(<<LetF("w", Ref("W")), Field("n", Apply(PyVar("w"), Py(<<"fn", "len">>))),
                        Req(<<"eq", <<"var", "n">>, <<"k", <<"i", 2>>>>>>)>>),
      T     |-> Rule(SepTrailer(Ref("W"), Str(<<44>>))) ]

(* bytes mode: byte literals, byte strings and byte regexes; the text is a bytes object *)
Rules3 ==
    [ start |-> Rule(Seq2(Ref("H"), Opt(Ref("Body")))),
      H     |-> Rule(<<"byte", a>>),
      Body  |-> Rule(Plus(Ch2(Str(<<b, b>>), Rgx(Cls(<<a>>))))),
      R     |-> Class(<<Field("h", Ref("H")), Field("n", Star(<<"byte", b>>))>>) ]

Grammar(i) ==
    CASE i = 5 -> [rules |-> Rules3, ign |-> <<>>, start |-> "start"]
      [] i = 9 -> [rules |-> Rules3, ign |-> <<Rgx(RxPlus(Cls(<<sp>>)))>>, start |-> "start"]     \* bytes mode with an ignore pattern
      [] i = 1 -> [rules |-> Rules1, ign |-> <<>>, start |-> "start"]
      [] i = 2 -> [rules |-> Rules1, ign |-> <<Rgx(RxPlus(Cls(<<sp>>)))>>, start |-> "start"]
      [] i = 3 -> [rules |-> Rules2, ign |-> <<>>, start |-> "start"]
      [] i = 4 -> [rules |-> Rules2, ign |-> <<Rgx(RxPlus(Cls(<<sp>>)))>>, start |-> "start"]

Entries(i) == IF i <= 2 THEN <<"start", "X", "Y", "K", "N", "Z", "E", "L", "M", "F", "Sh", "G1", "G2">>
              ELSE IF i \in {5, 9} THEN <<"start", "H", "Body", "R">>
              ELSE <<"start", "Item", "W", "P", "Q", "T">>

Alpha(i) == CASE i = 1 -> <<a, b>> [] i = 2 -> <<a, b, sp>> [] i = 3 -> <<a, b, 40, 41>> [] i = 4 -> <<a, 40, 41, sp>>
              [] i = 5 -> <<a, b, 10>>
              [] i = 9 -> <<a, b, sp>>

N == IF Tier = "quick" THEN 4 ELSE 5
Texts(i) == TextSeqUpTo(Alpha(i), IF i = 1 THEN N + 1 ELSE N)
            \o (IF i >= 3 THEN << <<a, 44, b, 44>>, <<a, 44, 44>>, <<40, 40, a, 41, b, 41, a>>, <<a, b, 44, a>> >> ELSE <<>>)

(* curried entry point of a parameterised class: C.parse(value)(text, pos) *)
\* (the parameter is called "text": the generated entry point has a parameter of that name itself)
RulesP == [ start |-> Rule(Call("P", <<Pos(PyInt(2))>>)),
            P |-> ClassP(<<"text">>, <<Field("it", Rep(A1, Nm("text"), Nm("text"))), Field("rest", Opt(B1))>>) ]
GP == [rules |-> RulesP, ign |-> <<>>, start |-> "start"]
CurriedRuns(tps) ==
    [k \in 1..(3 * Len(tps)) |->
        LET n == ((k - 1) \div Len(tps))  tp == tps[((k - 1) % Len(tps)) + 1]
        IN RunArgs(GP, "P", << <<"i", n>> >>, tp[1], tp[2])]

(* which rule module-level parse() starts with: the first rule whose name is "start" in any capitalisation,    *)
(* else the first rule of the description; only an explicit start rule gets the leading skip of ignored text  *)
StartNames == {"start", "Start", "START", "sTaRt"}
Detect(order) == IF \E k \in 1..Len(order) : order[k] \in StartNames
                 THEN order[CHOOSE k \in 1..Len(order) : order[k] \in StartNames /\ \A j \in 1..(k - 1) : order[j] \notin StartNames]
                 ELSE ""
SD(i) ==    \* <<rules, order of definition>>
    CASE i = 1 -> << [Aa |-> Rule(Plus(A1)), Start |-> Rule(Seq2(Ref("Aa"), Opt(B1))), Bb |-> Rule(Star(B1))], <<"Aa", "Start", "Bb">> >>
      [] i = 2 -> << [Bb |-> Rule(Seq2(Star(B1), Opt(Ref("Aa")))), Aa |-> Rule(Plus(A1))], <<"Bb", "Aa">> >>          \* no start rule
      [] i = 3 -> << [Aa |-> Rule(Plus(A1)), START |-> Rule(Seq2(B1, Ref("Aa"))), start |-> Rule(A1)], <<"Aa", "START", "start">> >>
      [] i = 4 -> << [Zz |-> Class(<<Field("v", Opt(A1))>>), sTaRt |-> Class(<<Field("x", Ref("Zz")), Field("y", Star(B1))>>)], <<"Zz", "sTaRt">> >>
GS(i, ign) == [rules |-> SD(i)[1], ign |-> IF ign THEN <<Rgx(RxPlus(Cls(<<sp>>)))>> ELSE <<>>, start |-> Detect(SD(i)[2])]
ModEntry(i) == IF Detect(SD(i)[2]) = "" THEN SD(i)[2][1] ELSE Detect(SD(i)[2])

VARIABLES gi, en, done
vars == <<gi, en, done>>

Init == /\ \/ (gi \in {1, 2, 3, 4, 5, 9} /\ en \in 1..Len(Entries(gi)))
           \/ (gi \in {6, 7} /\ en = 1)           \* 6: curried class entry, unnamed; 7: the same in a named grammar
           \/ (gi \in 11..18 /\ en = 1)          \* start-rule detection: SD(1..4) without / with ignore
        /\ done = FALSE

Step == /\ ~done
        /\ done' = TRUE
        /\ UNCHANGED <<gi, en>>
        /\ IF gi >= 11
           THEN LET i == ((gi - 11) % 4) + 1  ign == gi >= 15 IN
                EmitCasePos(GS(i, ign), [prop |-> "C08", order |-> SD(i)[2], module_entry |-> ModEntry(i)],
                            <<ModEntry(i)>>, AllPos(TextSeqUpTo(IF ign THEN <<a, b, sp>> ELSE <<a, b>>, 3), 1, 0))
           ELSE IF gi \in {6, 7}
           THEN PrintT(ToJson([g |-> GP, cfg |-> IF gi = 7 THEN [prop |-> "C08", name |-> "vg_c08"] ELSE [prop |-> "C08"],
                               runs |-> CurriedRuns(AllPos(TextSeqUpTo(<<a, b>>, 3), 1, 0))]))
           ELSE EmitCasePos(Grammar(gi), IF gi \in {5, 9} THEN [prop |-> "C08", bytes |-> TRUE] ELSE [prop |-> "C08"],
                       <<Entries(gi)[en]>>, AllPos(Texts(gi), 1, 0))

Next == Step

RECURSIVE ShiftV(_, _)
\* spans inside values move with the offset
ShiftV(v, k) ==
    CASE v[1] = "o" -> <<"o", v[2], [j \in 1..Len(v[3]) |-> <<v[3][j][1], ShiftV(v[3][j][2], k)>>],
                         <<v[4][1] + k, v[4][2] + k>>>>
      [] v[1] \in {"l", "tu"} -> <<v[1], [j \in 1..Len(v[2]) |-> ShiftV(v[2][j], k)]>>
      [] OTHER -> v

LawShift ==
    (done /\ gi <= 5) =>
    \A j \in 1..Len(Texts(gi)) :
        LET t == Texts(gi)[j] IN
        \A k \in 1..Len(t) :
            LET r1 == EvalEntry(Grammar(gi), Entries(gi)[en], t, k)
                r0 == EvalEntry(Grammar(gi), Entries(gi)[en], SubSeq(t, k + 1, Len(t)), 0)
            IN r1.t = r0.t /\ (r1.t = "ok" => (r1.v = ShiftV(r0.v, k) /\ r1.e = r0.e + k))
                           /\ (r1.t = "fail" => r1.far = r0.far + k)
=============================================================================
