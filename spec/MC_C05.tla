------------------------------- MODULE MC_C05 -------------------------------
(***************************************************************************)
(* C05 - bound names and data-dependent predicates.                        *)
(* Family = binding form x use form x abandon-and-rebind context.          *)
(*  binding forms: let / class field / class let-field / rule parameter /  *)
(*                 class parameter                                         *)
(*  use forms: where ==, bare value, list display, |> closure, <| closure, *)
(*             repetition count, where len>, pass-through template,        *)
(*             requires                                                    *)
(*  contexts: bare; an earlier alternative binds the same name differently *)
(*            and then fails; rebinding per iteration of a repetition;     *)
(*            recursion (inner invocation binds the same name); shadowing  *)
(***************************************************************************)
EXTENDS Fam

CONSTANTS Tier

semi == 59
bang == 33
lpar == 40
rpar == 41
two == 50
eqs == 61

W1 == APlus                                  \* /a+/
W2 == Rgx(RxPlus(Cls(<<a, b>>)))             \* /[ab]+/
Wd == Apply(Rgx(Cls(<<48, 49, 50, 51>>)), Py(<<"fn", "int">>))   \* digit |> int

Lam(kind, x) == Py(<<"lam", kind, <<"var", x>>>>)

(* the bound name: "x", or a name that is also a Python builtin (the value bound in the grammar must win everywhere, *)
(* also in code that the generator moves into a helper function)                                                      *)
VARIABLE bn
X == IF bn = 1 THEN "x" ELSE "max"

(* what BODY does with the bound name x *)
Use(u, x) ==
    CASE u = "whereeq" -> Right(Str(<<eqs>>), Where(W2, Lam("eq", x)))     \* like matching tags:  "=" >> (W where == x)
      [] u = "value"   -> Seq2(W2, PyVar(x))
      [] u = "list"    -> Py(<<"lst", << <<"var", x>>, <<"var", x>> >> >>)
      [] u = "apply"   -> Apply(W2, Lam("pair", x))
      [] u = "applyl"  -> ApplyL(Lam("pair", x), W2)
         \* the function of <| is itself parsed (it consumes "="), and it is parsed BEFORE its argument
      [] u = "applylc" -> ApplyL(Right(Str(<<eqs>>), Lam("pair", x)), W2)
         \* a predicate whose value is truthy without being True (a length), in a rule that ends with the `where`
      [] u = "wherelen" -> Seq2(Ref("Len3"), PyVar(x))
         \* `e where p` with a literal e directly as the element of a repetition: a rejected element is not consumed
      [] u = "whererep" -> Seq2(Star(Where(Rgx(Cls(<<a, b>>)), Lam("ne", x))), Rgx(RxStarG(Cls(<<a, b, semi, bang, eqs>>))))
         \* <| whose function side can fail while its argument side cannot
      [] u = "applylo" -> Seq2(Opt(ApplyL(Right(Str(<<eqs>>), Lam("pair", x)), Star(Rgx(Cls(<<a, b>>))))),
                               Rgx(RxStarG(Cls(<<a, b, semi, bang, eqs>>))))
         \* <| with inline Python as function and a compound argument that fails after consuming, as element of a repetition
      [] u = "applyrep" -> Seq2(Star(ApplyL(Lam("pair", x), Seq2(Str(<<eqs>>), Rgx(Cls(<<a, b>>))))),
                                Rgx(RxStarG(Cls(<<a, b, semi, bang, eqs>>))))
      [] u = "count"   -> Rep(Str(<<b>>), Nm(x), Nm(x))
      [] u = "lengt"   -> Where(W2, Lam("lengt", x))
      [] u = "tmpl"    -> Call("Echo", <<Pos(Ref(x))>>)
      [] u = "tmplkw"  -> Right(Str(<<eqs>>), Call("Same", <<Kw("q", Ref(x))>>))
      [] u = "wherene" -> Where(W2, Lam("ne", x))
         \* the name is mentioned inside a compound argument (which the generator moves into a helper function)
      [] u = "argwhere" -> Right(Str(<<eqs>>), Call("Id", <<Pos(Where(W2, Lam("eq", x)))>>))

Uses == {"whereeq", "value", "list", "apply", "applyl", "applylc", "applylo", "applyrep", "wherelen", "whererep", "count", "lengt", "tmpl", "tmplkw", "wherene", "argwhere"}

Src(u, w) == IF u = "count" THEN Wd ELSE w      \* a count needs a number

(* binding forms: how x gets its value (parsed by `w`), then BODY *)
Binds == {"let", "field", "letfield", "param", "cparam", "reqfield"}

(* the expression that binds x := w and evaluates body; class/template     *)
(* bodies live in rules K / T (one binding form per grammar)               *)
Bound(bf, w, sfx) ==
    CASE bf = "let"      -> Let(X, w, Left(Ref("Body"), sfx))
      [] bf = "field"    -> Left(Ref("K"), sfx)
      [] bf = "letfield" -> Left(Ref("K"), sfx)
      [] bf = "reqfield" -> Left(Ref("K"), sfx)
      [] bf = "param"    -> Let("q", w, Left(Call("T", <<Pos(Ref("q"))>>), sfx))
      [] bf = "cparam"   -> Let("q", w, Left(Call("K", <<Kw(X, Ref("q"))>>), sfx))

Eps == Str(<<>>)

(* Note: with "let", Body is evaluated inline (a rule cannot see the caller's x), *)
(* so for "let" the use form is inlined instead of referenced.                    *)
BoundLet(u, w, sfx) == Let(X, w, Left(Use(u, X), sfx))

Bd(bf, u, w, sfx) == IF bf = "let" THEN BoundLet(u, w, sfx) ELSE Bound(bf, w, sfx)

(* class / template holding the body for the non-let binding forms; the    *)
(* class parses its own source `w` for field-style bindings                 *)
KRule(bf, u, w) ==
    CASE bf = "field"    -> Class(<<Field(X, w), Field("y", Use(u, X))>>)
      [] bf = "letfield" -> Class(<<LetF(X, w), PassM(Eps), Field("y", Use(u, X))>>)
      [] bf = "reqfield" -> Class(<<Field(X, w), Field("y", Use(u, X)),
                                    Req(<<"eq", <<"len", <<"var", "y">>>>, <<"len", <<"var", "y">>>>>>)>>)
      [] bf = "cparam"   -> ClassP(<<X>>, <<Field("y", Use(u, X))>>)
      [] OTHER           -> Class(<<Field("y", Eps)>>)

TRule(bf, u) == RuleP(<<X>>, Use(u, X))

Start(bf, u, c) ==
    LET w == Src(u, W1)  w2 == Src(u, W2) IN
    CASE c = 0 -> Bd(bf, u, w, Eps)
         \* an earlier alternative binds x, is abandoned at "!", and x is bound again
      [] c = 1 -> Ch2(Bd(bf, u, w, Str(<<bang>>)), Bd(bf, u, w, Eps))
         \* rebinding per iteration
      [] c = 2 -> Star(Bd(bf, u, w, Str(<<semi>>)))
         \* recursion: the inner invocation binds the same name; the outer value is used afterwards
      [] c = 3 -> Ref("Rec")
         \* shadowing: the inner binding of the same name wins inside
      [] c = 4 -> Let(X, Left(W2, Str(<<semi>>)), Bd(bf, u, w, Eps))
         \* the same binding used twice in a sequence (sibling invocations)
      [] c = 5 -> Seq2(Bd(bf, u, w, Str(<<semi>>)), Bd(bf, u, w, Eps))
         \* a rule whose parameter is shadowed by an inner let, then ANOTHER rule with a parameter of the same name
         \* a let variable that has the name of a rule of the grammar (Id), passed on as an argument
      [] c = 7 -> Let("Id", w, Left(Call("Echo", <<Pos(Ref("Id"))>>), Eps))
         \* the binding expression of an inner let of the same name mentions the outer binding
      [] c = 8 -> Let(X, w, Let(X, Py(<<"lst", << <<"var", X>>, <<"var", X>> >> >>), Left(Use(u, X), Eps)))
      [] c = 6 -> Let("q", w, Seq2(Left(Call("ShA", <<Pos(Ref("q"))>>), Str(<<semi>>)), Call("ShB", <<Pos(Ref("q"))>>)))

RecRule(bf, u) ==
    LET w == Src(u, W1) IN
    Let(X, w, Seq3(Use(u, X),
                     Opt(Left(Right(Str(<<lpar>>), Ref("Rec")), Str(<<rpar>>))),
                     Use(u, X)))

Grammar(bf, u, c) ==
    [rules |-> [start |-> Rule(Start(bf, u, c)),
                K |-> KRule(bf, u, Src(u, W1)),
                T |-> TRule(bf, u),
                Rec |-> Rule(RecRule(bf, u)),
                ShA |-> RuleP(<<X>>, Let(X, Src(u, W2), Use(u, X))),
                ShB |-> RuleP(<<X>>, Use(u, X)),
                Id |-> RuleP(<<"p">>, Ref("p")),
                Echo |-> RuleP(<<"p">>, Seq2(W2, PyVar("p"))),
                Same |-> RuleP(<<"q">>, Where(W2, Lam("eq", "q"))),
                Len3 |-> Rule(Where(W2, Py(<<"fn", "len">>)))],
     ign |-> <<>>, start |-> "start"]

Alpha == <<a, b, semi, bang, eqs>>
Texts == TextSeqUpTo(Alpha, IF Tier = "quick" THEN 4 ELSE 5)
         \o TextSeqUpTo(<<a, b>>, 6)
         \o << <<a, a, b, lpar, a, b, a, rpar, a, a>>, <<a, a, lpar, a, a, rpar, a, a>>,
               <<a, a, lpar, a, b, rpar, a>>, <<a, b, b, semi, a, a, a, semi>>, <<a, b, bang, a, a>>,
               <<a, a, a, bang>>, <<a, b, semi, a, a, b>>, <<a, a, b, semi, a, a, b, b>>,
               <<a, eqs, a, semi, a, a, eqs, a, a>>, <<a, a, eqs, a, a, semi, a, eqs, a>>, <<a, eqs, a, bang, a, eqs, a>>,
               <<a, a, eqs, a, a, bang>>, <<a, eqs, a, semi, a, eqs, a, semi>>, <<a, eqs, a, lpar, a, a, eqs, a, a, rpar, eqs, a>>,
               <<a, b, semi, a, eqs, a>>, <<a, eqs, a, semi, a, eqs, b>>, <<a, a, eqs, a>>, <<a, eqs, a, a>>,
               <<a, b, eqs, b, semi, eqs, a>>, <<a, b, eqs, b, semi, eqs, b>>, <<a, a, b, a, eqs, b, a, semi, eqs, a, a>>,
               <<a, b, eqs, a, semi, eqs, a>> >>
CountTexts == TextSeqUpTo(<<48, 49, two, b, semi>>, IF Tier = "quick" THEN 4 ELSE 5)
         \o << <<two, b, b, bang>>, <<two, b, b, semi, 49, b, semi>>, <<two, b, bang, 49, b>>,
               <<two, b, lpar, 49, b, rpar, b>>, <<49, lpar, two, b, b, rpar, b>>, <<two, b, b, b, b>> >>

VARIABLES bf, u, c, named, done
vars == <<bf, u, c, named, bn, done>>

Init == /\ bf \in Binds /\ u \in Uses /\ c \in 0..8
        /\ (c = 7 => (bf = "let" /\ u = "value"))
        /\ (c = 8 => (bf = "let" /\ u \in {"value", "list", "apply"}))
        /\ (c \in {3, 6} => bf = "let")     \* the recursive rule and the shadowing rules use the let form
        /\ named \in {FALSE, TRUE}
        /\ bn \in {1, 2}
        /\ (bn = 2 => (c \in {0, 1} /\ u \in {"argwhere", "whereeq", "count", "list", "lengt"}))
        /\ (named => c \in {0, 6})          \* the named calling convention for the plain and the shadowing contexts
        /\ done = FALSE

Step == /\ ~done
        /\ done' = TRUE
        /\ UNCHANGED <<bf, u, c, named, bn>>
        /\ EmitCase(Grammar(bf, u, c), IF named THEN [prop |-> "C05", name |-> "vg_c05"] ELSE [prop |-> "C05"],
                    <<"start">>, IF u = "count" THEN CountTexts ELSE Texts)

Next == Step

\* vacuity guard: in every rebinding context some input takes the abandon-and-rebind path
\* (the first alternative fails after binding and the whole parse still succeeds)
\* vacuity guard: every (binding, use) pair matches some text of the family in the bare context
LawUseExercised ==
    (done /\ c = 0) =>
    \E k \in 1..Len(IF u = "count" THEN CountTexts ELSE Texts) :
        EvalEntry(Grammar(bf, u, c), "start", (IF u = "count" THEN CountTexts ELSE Texts)[k], 0).t = "ok"

\* ... and the shadowing context reaches its second rule for the separator-based use forms
LawShadowExercised ==
    (done /\ c = 6 /\ u \in {"whereeq", "argwhere", "tmplkw"}) =>
    \E k \in 1..Len(Texts) : EvalEntry(Grammar(bf, u, c), "start", Texts[k], 0).t = "ok"

LawRebindExercised ==
    (done /\ c = 1 /\ u \in {"value", "list"}) =>
    \E k \in 1..Len(Texts) :
        EvalEntry(Grammar(bf, u, c), "start", Texts[k], 0).t = "ok"
=============================================================================
