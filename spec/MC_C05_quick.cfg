CONSTANTS
  Tier = "quick"
INIT Init
NEXT Next
INVARIANT LawRebindExercised
CHECK_DEADLOCK FALSE
