CONSTANTS
  Tier = "quick"
  CutEnd = 40
INIT Init
NEXT Next
INVARIANT ExcerptAccepted
INVARIANT CounterAgrees
CHECK_DEADLOCK FALSE
