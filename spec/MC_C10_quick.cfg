CONSTANTS
  Tier = "quick"
INIT Init
NEXT Next
INVARIANT LawNesting
CHECK_DEADLOCK FALSE
