CONSTANTS
  Tier = "thorough"
  CutEnd = 42
INIT Init
NEXT Next
INVARIANT ExcerptAccepted
INVARIANT CounterAgrees
CHECK_DEADLOCK FALSE
