"""C07 - packrat guarantee: a rule is evaluated at most once per position."""
import random

import engine
import gen
import pegcheck
import render
import tlc
import tracecheck
from common import MachineryFailure

HOOKS = True
S, T = gen.S, gen.T


def program_grammar(req):
    """The grammar that realises an abstract program of MC_Packrat: rule i asks
    for the rules req[i] in order, all at the same position."""
    rules = {}
    for i, rq in enumerate(req, 1):
        body = ['seq', [['opt', ['expect', ['ref', 'R%d' % j]]] for j in rq] + [['opt', S('a')]]]
        rules['R%d' % i] = {'kind': 'rule', 'params': [], 'body': body}
    return {'rules': rules, 'ign': [], 'start': 'R1'}


def exp_family(n):
    """E = T '+' E | T '-' E | T ; T = '(' E ')' | 'a'   (exponential without memo)"""
    desc = 'start = E\nE = [T, "+", E] | [T, "-", E] | T\nT = ("(" >> E << ")") | "a"\n'
    text = '(' * n + 'a' + ')' * n
    return desc, text


def lookahead_chain(k):
    lines = ['start = R1']
    for i in range(1, k):
        lines.append('R%d = [Expect(R%d), Expect(R%d), R%d] | R%d' % (i, i + 1, i + 1, i + 1, i + 1))
    lines.append('R%d = "a"+' % k)
    return '\n'.join(lines) + '\n'


def with_probes(g):
    """Hook-free probes: every rule body first reports (rule, remaining length)."""
    import copy
    g2 = copy.deepcopy(g)
    for name, r in g2['rules'].items():
        if r['kind'] == 'rule' and not r['params']:
            r['body'] = ['right', ['desc', 'PROBE:' + name], r['body']]
    return g2


def probe_desc(g):
    """Render with probes spliced in (the probe expression is inline Python, outside
    the modelled repertoire, so it is rendered here)."""
    lines = ['```\nfrom sourcer_verif_rt import probe as _vprobe\n```']
    for name, r in g['rules'].items():
        body = render.expr(r['body'])
        lines.append('%s = (Expect(/(?s).*/) |> `lambda r_: _vprobe(%r, len(r_))`) >> %s' % (name, name, body))
    return '\n'.join(lines) + '\n'


IDENTITY = [
    # (description, text, pairs of paths into the result that must be one object)
    ('start = [Expect(Items), Items]\nItems = /[ab]/*\n', 'abba', [((0,), (1,))]),
    ('start = [Expect(P), P, Expect(P)?]\nP = [W, W?]\nW = /[ab]/\n', 'ab', [((0,), (1,))]),
    ('class D {\n    peek: Expect(Items)\n    first: (Items << ";") | (Items << ".")\n}\nItems = /[ab]/ // ","\nstart = D\n',
     'a,b,a.', [(('peek',), ('first',))]),
    ('start = [Expect(K), K]\nclass K {\n    w: /[ab]+/\n    rest: ("," >> /[ab]+/)*\n}\n', 'ab,b,a',
     [((0,), (1,)), ((0, 'rest'), (1, 'rest'))]),
    ('start = [Expect(W), W]\nW = /[ab]+/ |> `lambda s: s.upper()`\n', 'abab', [((0,), (1,))]),
]


def identity_worker(case):
    import sourcer
    out = []
    for desc, text, pairs in IDENTITY:
        try:
            mod = sourcer.Grammar(desc)
            v = mod.parse(text)

            def at(path):
                x = v
                for k in path:
                    x = getattr(x, k) if isinstance(k, str) else x[k]
                return x
            out.append([[at(a) is at(b), type(at(a)).__name__] for a, b in pairs])
        except BaseException as e:  # noqa
            out.append(['exc', type(e).__name__, str(e)[:150]])
    return {'id': case['id'], 'desc': None, 'build': ['ok'], 'obs': out}


engine.register('identity_worker', identity_worker)


def run(chk):
    chk.rule = ('cases = parse calls whose driver steps are observed; (1) every abstract program of MC_Packrat (4 rules, '
                '<= 3 requests per body) is realised as a grammar and the real driver must produce exactly the event '
                'sequence of the model; (2) driver traces (hook) of sharing-heavy grammars - the exponential family, '
                'lookahead chains, seeded random grammars with rule references - on many inputs and (3) hook-free '
                'probe traces are validated by TLC against Trace_Packrat; non-trivial = the call requested at least '
                'one rule twice (a memo hit occurred) ; distinct by (description, input)')
    chk.assumptions += ['hook H1 reports after each state change of _run; key identity is (rule function name, position) '
                        'for parameterless rules, independent of how the code builds its memo keys',
                        'probes observe rule bodies through the public API only (inline Python + remaining length)']
    # (B) model checking of the driver design
    r = tlc.run('MC_Packrat', 'MC_Packrat_quick' if chk.tier == 'quick' else 'MC_Packrat_thorough', timeout_s=3000)
    chk.add_tlc(r, 'MC_Packrat')
    if not r.ok:
        raise MachineryFailure('MC_Packrat did not complete')
    # (A) behaviours of the model replayed into the real driver
    progs = []
    r = tlc.run('MC_Packrat', 'MC_Packrat_emit', on_json=progs.append, timeout_s=3000)
    chk.add_tlc(r, 'MC_Packrat_emit')
    cases = []
    for i, p in enumerate(progs):
        g = program_grammar(p['req'])
        cases.append({'id': i, 'g': g, 'cfg': {}, 'start': 'R1', 'runs': [['R1', T('a'), 0]], 'model': p['trace']})
    recs = engine.run_real(cases, fn='record_case', hooks=True)
    for c in cases:
        rec = recs[c['id']]
        if rec['build'][0] == 'harness-error':
            raise MachineryFailure(rec['build'][1])
        if rec['build'][0] == 'no-hook':
            # the driver no longer matches the hook's anchors: only the hook-free probes can observe it
            chk.notes['hook'] = 'anchors not found in _run; driver traces skipped, probes only'
            continue
        if rec['build'][0] != 'ok':
            chk.violation('Grammar() failed for a program grammar: %r' % (rec['build'],), {'desc': rec['desc']})
            continue
        real = [[e['ev'], int(e['rule'][6:]) if 'rule' in e else 0] for e in rec['events']]
        chk.traces += 1
        hits = sum(1 for e in real if e[0] == 'hit')
        chk.count([rec['desc']], hits > 0)
        if len(chk.samples) < 3 and hits:
            chk.sample({'description': rec['desc'], 'model_events': c['model'], 'driver_events': real})
        if real != c['model']:
            chk.violation('driver events differ from the model behaviour | grammar: %s | model %s | real %s'
                          % (rec['desc'].replace('\n', ' ; '), c['model'], real),
                          {'desc': rec['desc'], 'model': c['model'], 'real': real})
    # (C1) traces of sharing-heavy grammars validated by TLC
    rng = random.Random(chk.seed * 7919 + 7)
    tcases = []
    depths = [1, 2, 3, 5, 8] if chk.tier == 'quick' else [1, 2, 3, 5, 8, 12, 20, 40]
    for n in depths:
        desc, text = exp_family(n)
        runs = [['start', T(text), 0], ['start', T(text[:-1]), 0], ['start', T(text + '+a'), 0],
                ['start', T(text + '-' + text), 0], ['start', T('a+a-a+(a)'), 0]]
        tcases.append({'id': len(tcases), 'desc': desc, 'cfg': {}, 'runs': runs, 'nrules': 3})
    for k in ([3, 5] if chk.tier == 'quick' else [3, 5, 8, 12]):
        tcases.append({'id': len(tcases), 'desc': lookahead_chain(k), 'cfg': {},
                       'runs': [['start', T('a' * m), 0] for m in (0, 1, 3, 7)], 'nrules': k + 1})
    # a nested parse (started from inline Python) in an alternative that is then abandoned
    nested = ('```\ndef _vn(s):\n    return Word.parse(s)\n```\n'
              'start = [Word, Nest, "!"] | [Word, Nest, "?"] | [Word, Nest]\n'
              'Nest = "=" >> (Word |> `lambda s: _vn(s)`)\nWord = /[ab]+/\n')
    tcases.append({'id': len(tcases), 'desc': nested, 'cfg': {},
                   'runs': [['start', T(x), 0] for x in ('ab=ba?', 'ab=ba!', 'ab=ba', 'a=b=', 'ab')], 'nrules': 3})
    # a parameterless rule that is passed as an argument AND referenced directly at the same position; an ignored
    # rule that is also referenced explicitly.  With probes (inline Python in the rule bodies) and without.
    PR = '(Expect(/(?s).*/) |> `lambda r_: _vprobe(%r, len(r_))`) >> '
    HEAD = '```\nfrom sourcer_verif_rt import probe as _vprobe\n```\n'
    hand = [
        ('start = [Ahead(Name), Name, (Tail(Group) | Group)?]\nAhead(p) = Expect(p)\nTail(p) = p << "!"\n'
         'Name = {Name}/[ab]+/\nGroup = {Group}("(" >> (Tail(Group) | Group | Name) << ")")\n',
         ['ab(a)', 'ab((b))!', 'a(((ab)))', 'ab', 'b(', 'ab(a)!'], 5),
        ('ignore Space = {Space}/[ ]+/\nstart = (Word | Checked)+\nWord = {Word}/[ab]+/\n'
         'Checked = {Checked}(Backtrack(1) >> Space >> "-" >> Word)\n',
         ['a b', 'ab -a b', 'a  -b -a', ' a', 'a - b', 'ab -ab  -b '], 5),
        # alias rules (a rule whose whole body is another rule's name): the target is reached at the same position
        # through two aliases and directly; only the target carries a probe, the aliases stay bare
        ('start = ((Key << "=") | (Label << ":") | Word)+\nKey = Word\nLabel = Word\nWord = {Word}/[ab]+/\n',
         ['ab', 'ab=', 'ab:', 'a=b:ab', 'ab:a', 'b;'], 4),
        ('start = E1\nE1 = [A1, "+", E1] | [B1, "-", E1] | T\nA1 = T\nB1 = T\n'
         'T = {T}(("(" >> E1 << ")") | "a")\n',
         ['a', '(a)', '((a))', '(((a+a)))', '((a)-(a))+a', '((((a))))'], 5),
    ]
    # In a grammar with ignore declarations a probe must not be a literal (a literal is followed by the skip, and
    # an empty-matching literal inside an ignored rule would re-enter _ignored at the same position).  There the
    # probe reads the position register of the generated function directly; if that name ever changes the family
    # is skipped (noted in the evidence), never reported.
    PRPOS = '`_vprobe_pos(%r, _pos)` >> '
    HEADPOS = ('```\nfrom sourcer_verif_rt import mark as _vmark\n'
               'def _vprobe_pos(rule, pos):\n    _vmark("body", rule=rule, pos=pos)\n```\n')
    for tmpl, inputs, nr in hand:
        plain_desc = tmpl
        with_ignore = 'ignore ' in tmpl
        probed = (HEADPOS if with_ignore else HEAD) + tmpl
        for nm in ('Name', 'Group', 'Space', 'Word', 'Checked', 'T'):
            plain_desc = plain_desc.replace('{%s}' % nm, '')
            probed = probed.replace('{%s}' % nm, (PRPOS if with_ignore else PR) % nm)
        tcases.append({'id': len(tcases), 'desc': plain_desc, 'cfg': {}, 'runs': [['start', T(x), 0] for x in inputs],
                       'nrules': nr})
        tcases.append({'id': len(tcases), 'desc': probed, 'cfg': {'probes': True, 'nrules': nr, 'posprobe': with_ignore},
                       'runs': [['start', T(x), 0] for x in inputs], 'nrules': nr})
    # a derived grammar: the inherited rule Number is reached as super.Number and as Number at the same position
    dbase = ('grammar vg_c07_base\n' + HEAD + 'start = Stmt+\nStmt = Print | Halt\nPrint = [Number, "?"]\nHalt = ["h", Number?]\n'
             'Number = ' + (PR % 'Number') + '/[0-9]+/\n')
    dder = ('grammar vg_c07_der extends vg_c07_base\nStmt = Sleep | Print | Twice | Halt\nSleep = [super.Number, "!"]\n'
            'Twice = [Expect(Number), super.Number, "#"]\n')
    tcases.append({'id': len(tcases), 'desc': dder,
                   'cfg': {'probes': True, 'nrules': 8, 'pre': [dbase], 'installed': ['vg_c07_base', 'vg_c07_der']},
                   'runs': [['start', T(x), 0] for x in ('12?', '12!', '7#', '12?3!h4#', 'h', '5')], 'nrules': 8})
    # long inputs (memo tables with tens of thousands of entries), validated in projection on the rare rules
    longg = ('start = [Header, Items, "."] | [Header, Items, ";"] | [Header, Items]\n'
             'Header = "h:"\nItems = Item*\nItem = "a" | "b"\n')
    for n in ([20000] if chk.tier == 'quick' else [20000, 70000]):
        tcases.append({'id': len(tcases), 'desc': longg, 'cfg': {'project': ['_try_Header', '_try_Items']},
                       'runs': [['start', T('h:' + 'ab' * (n // 2) + ';'), 0], ['start', T('h:' + 'a' * n), 0]],
                       'nrules': 4})
    nrand = 300 if chk.tier == 'quick' else 4000
    texts = gen.all_texts('ab', 3) + [T('aabab'), T('ababab'), T('bbaab')]
    rcases = []
    for i in range(nrand):
        cg = gen.CoreGen(rng, refs=('R1', 'R2', 'R3'), allow_back=False)
        g = cg.grammar(3)
        rcases.append({'id': i, 'g': g, 'cfg': {'prop': 'C07'}, 'runs': [['start', t, 0] for t in texts]})
    pegcheck.with_oracle(chk, rcases)
    for c in pegcheck.drop_ill(chk, rcases):
        c2 = dict(c)
        c2['id'] = len(tcases)
        tcases.append(c2)
    recs = engine.run_real(tcases, fn='record_case', hooks=True)
    reclist = []
    for c in tcases:
        rec = recs[c['id']]
        if rec['build'][0] == 'harness-error':
            raise MachineryFailure('trace recording failed: %r' % (rec['build'],))
        if rec['build'][0] != 'ok':
            chk.notes['traced_grammars_not_built'] = chk.notes.get('traced_grammars_not_built', 0) + 1
            continue     # construction problems are C01's business
        if (c.get('cfg') or {}).get('posprobe') and any(o[0] == 'exc' and o[1] == 'NameError' for o in rec['obs']):
            chk.notes['posprobe'] = 'the position register is not called _pos any more: ignore-grammar probe family skipped'
            continue
        reclist.append(rec)
        hits = sum(1 for e in rec['events'] if e['ev'] == 'hit')
        chk.count([rec['desc']], hits > 0)
        chk.traces += sum(1 for e in rec['events'] if e['ev'] == 'begin')
    chk.notes['driver_events_validated'] = sum(len(r['events']) for r in reclist)
    for rec, consumed, bad, inv in tracecheck.validate_cases(chk, reclist, 'driver'):
        chk.violation('driver trace rejected by Trace_Packrat at event %d: %s %s | grammar: %s'
                      % (consumed + 1, json_short(bad), inv or '', rec['desc'].replace('\n', ' ; ')[:500]),
                      {'desc': rec['desc'], 'rejected_event': bad, 'events_before': rec['events'][max(0, consumed - 6):consumed]})
    # (C3) "every later reference receives the same value object": references to one rule at one position, whose value
    # is a list / an instance / a string built by inline Python, are the same object in the result
    irec = engine.run_real([{'id': 0}], fn='identity_worker', batch=1)[0]
    for (desc, text, pairs), res in zip(IDENTITY, irec['obs']):
        chk.traces += 1
        chk.count(['identity', desc, text], True)
        if res and res[0] == 'exc':
            chk.violation('identity family: parse raised %s | %s' % (res[1:], desc.replace('\n', ' ; ')), {'desc': desc, 'text': text})
            continue
        for (a, b), (same, tname) in zip(pairs, res):
            if not same:
                chk.violation('two references to the same rule at the same position received different value objects (%s) '
                              '| paths %s and %s | text %r | grammar: %s' % (tname, list(a), list(b), text, desc.replace('\n', ' ; ')),
                              {'desc': desc, 'text': text, 'paths': [list(a), list(b)]})
    # (C1') hook-free probes
    pcases = []
    for n in depths[:4]:
        desc, text = exp_family(n)
        g = None
    for i, c in enumerate(pegcheck.drop_ill(chk, rcases)[: (150 if chk.tier == 'quick' else 1500)]):
        g = c['g']
        if any(r['kind'] != 'rule' for r in g['rules'].values()):
            continue
        pcases.append({'id': i, 'desc': probe_desc(g), 'cfg': {'probes': True, 'probes_only': True, 'nrules': len(g['rules'])},
                       'runs': c['runs']})
    precs = engine.run_real(pcases, fn='record_case', hooks=True)
    for c in pcases:
        if precs[c['id']]['build'][0] == 'harness-error':
            raise MachineryFailure('probe recording failed: %r' % (precs[c['id']]['build'],))
    plist = [precs[c['id']] for c in pcases if precs[c['id']]['build'][0] == 'ok']
    chk.notes['probe_grammars_validated'] = len(plist)
    chk.notes['probe_grammars_not_built'] = len(pcases) - len(plist)
    chk.notes['probe_events_validated'] = sum(len(r['events']) for r in plist)
    chk.traces += sum(1 for r in plist for e in r['events'] if e['ev'] == 'pbegin')
    for rec, consumed, bad, inv in tracecheck.validate_cases(chk, plist, 'probes'):
        chk.violation('probe trace rejected by Trace_Packrat at event %d: %s | grammar: %s'
                      % (consumed + 1, json_short(bad), rec['desc'].replace('\n', ' ; ')[:500]),
                      {'desc': rec['desc'], 'rejected_event': bad})


def json_short(e):
    import json
    return json.dumps(e, sort_keys=True)[:300]
