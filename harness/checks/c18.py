"""C18 - parse calls are isolated from each other."""
import json
import random

import engine
import gen
import pegcheck
import realrun
import render
import tlc
import tracecheck
from common import MachineryFailure

HOOKS = True
S, T = gen.S, gen.T

PRELUDE = '''```
class _VBoom(Exception):
    pass

def _vboom(v, bad):
    if v == bad:
        raise _VBoom(v)
    return True

def _vnested(s):
    # a parse started from inline Python in the middle of another parse
    return Word.parse(s)

def _vnested_obj(s):
    # ... whose result is a class instance that ends up inside the outer parse's result
    return Pair.parse(s)
```
'''


def grammar():
    """Words separated by commas; a word equal to 'bb' makes user code raise; 'N:' prefixes trigger a nested parse."""
    W = ['rx', ['plus', gen.cls('ab'), True], False]
    checked = ['where', ['ref', 'Word'], ['py', ['lam', 'boomeq', ['k', ['s', T('bb')]]]]]
    rules = {
        'start': {'kind': 'rule', 'params': [], 'body': ['sep', ['ref', 'Item'], S(','), [True, False, True, False]]},
        'Item': {'kind': 'rule', 'params': [], 'body': ['choice', [['ref', 'Pair'], checked]]},
        'Pair': {'kind': 'class', 'params': [], 'members': [['field', 'l', ['ref', 'Word']], ['pass', '', S('=')],
                                                             ['field', 'r', checked]]},
        'Word': {'kind': 'rule', 'params': [], 'body': W},
    }
    return {'rules': rules, 'ign': [], 'start': 'start'}


ACCUM = '''
class Acc {
    names: `[]`
    seen: `{}`
    pass (AWord |> `names.append`)+
    pass `seen.update` <| `{"n": len(names)}`
}
AWord = /[ab]+/ << /,?/
'''


def accum_results(mod, texts):
    out = []
    for t in texts:
        try:
            o = mod.Acc.parse(t)
            out.append(['ok', list(o.names), dict(o.seen)])
        except mod.InputError as e:
            out.append(['input-error', type(e).__name__])
        except BaseException as e:  # noqa
            out.append(['exc', type(e).__name__, str(e)[:100]])
    return out


ORD_BASE = ('grammar {b}\nstart = Items(",")\nItems(sep) = Word // sep\nWord = /[ab]+/\n'
            'Tagged = [Word, After("=")]\nAfter(p) = p >> Word\n')
ORD_SUB = ('grammar {s} extends {b}\nignore / +/\nSubList = Items(",")\nSubTagged = [Word, After("=")]\n'
           'Own = [Word, ",", Word]\n')
ORD_CALLS = [('b', 'start', 'a,b'), ('b', 'start', 'a , b'), ('b', 'Tagged', 'a=b'), ('b', 'Tagged', 'a= b'),
             ('s', 'SubList', 'a,b'), ('s', 'SubList', 'a , b'), ('s', 'SubTagged', 'a=b'), ('s', 'SubTagged', 'a = b'),
             ('s', 'Own', 'a , b'), ('s', 'start', 'a,b'), ('s', 'start', 'a ,b')]


def order_outcomes(cid):
    """The same calls on a base grammar and a grammar extending it (which adds an ignore pattern; both pass the same
    literals to the same parameterised rules), in three different orders, each order on a freshly created pair of
    modules: the outcome of a call may depend on nothing but the module and the call."""
    import sys
    import sourcer
    orders = {'base-first': sorted(range(len(ORD_CALLS)), key=lambda i: (ORD_CALLS[i][0] != 'b', i)),
              'sub-first': sorted(range(len(ORD_CALLS)), key=lambda i: (ORD_CALLS[i][0] != 's', i)),
              'alternating': sorted(range(len(ORD_CALLS)), key=lambda i: (i % 4, i))}
    res = {}
    for k, (oname, idx) in enumerate(sorted(orders.items())):
        b, sname = 'vg_c18_ob%d_%d' % (cid, k), 'vg_c18_os%d_%d' % (cid, k)
        try:
            mb = sourcer.Grammar(ORD_BASE.format(b=b))
            ms = sourcer.Grammar(ORD_SUB.format(b=b, s=sname))
            got = [None] * len(ORD_CALLS)
            for i in idx:
                which, entry, text = ORD_CALLS[i]
                m = mb if which == 'b' else ms
                fn = m.parse if entry == 'start' else getattr(m, entry).parse
                got[i] = realrun.call_parse(m, fn, text, 0, True)[:3]
            res[oname] = got
        except Exception as e:   # noqa
            res[oname] = ['exc', type(e).__name__, str(e)[:150]]
        finally:
            sys.modules.pop(b, None)
            sys.modules.pop(sname, None)
    return ['orders', res]


def _raw_spans(v):
    if isinstance(v, list):
        if len(v) == 4 and v[0] == 'o' and isinstance(v[3], list) and v[3] and v[3][0] == 'raw':
            return v[3]
        for x in v:
            r = _raw_spans(x)
            if r:
                return r
    return None


def history_worker(case):
    """Run a history (list of steps) in one worker process and report every outcome."""
    import sys
    import threading
    import sourcer
    import sourcer_verif_rt as rt
    desc = case['desc']
    mod = sourcer.Grammar(desc)
    out = []
    events = []
    rt.drain()
    rt.enable(bool(case.get('trace')))

    def one(entry, text, pos, full, keep_spans=False):
        fn = mod.parse if entry == 'start' else getattr(mod, entry).parse
        d0 = rt.open_depth()
        o = realrun.call_parse(mod, fn, text, pos, full, spans=True)
        if o[0] == 'ok':
            # whatever else is going on (other threads, an enclosing or nested parse): every instance of a returned
            # result carries final positions (index, line, column), never the raw offsets of the parse functions
            raw = _raw_spans(o[1])
            if raw:
                o = ['exc', 'RawPositions', 'an instance of the result carries %r instead of positions' % (raw,)]
            elif not keep_spans:
                o[1] = realrun.strip_obs_spans(o[1])
        if o[0] in ('exc', 'timeout'):
            rt.abort_open(d0)
        return o

    try:
        for step in case['steps']:
            kind = step[0]
            if kind == 'parse':
                out.append(one(step[1], step[2], step[3], True))
            elif kind == 'threads':
                old = sys.getswitchinterval()
                sys.setswitchinterval(1e-6)
                res = [None] * len(step[1])
                barrier = threading.Barrier(len(step[1]))

                def work(i, call):
                    barrier.wait()
                    res[i] = [one(call[0], call[1], call[2], True) for _ in range(step[2])]
                ths = [threading.Thread(target=work, args=(i, c)) for i, c in enumerate(step[1])]
                for t in ths:
                    t.start()
                for t in ths:
                    t.join()
                sys.setswitchinterval(old)
                out.append(res)
            elif kind == 'compile':
                # compiling further grammars (also one that extends / reuses the name) must not alter `mod`
                try:
                    sourcer.Grammar(step[1])
                    out.append(['compiled'])
                except Exception as e:   # noqa
                    out.append(['compile-exc', type(e).__name__, str(e)[:200]])
            elif kind == 'nested':
                # outer parse whose inline Python starts an inner parse of the same module
                g2 = step[1]
                out.append(one('Outer', g2, 0, True))
            elif kind == 'nested2':
                out.append(one('Outer2', step[1], 0, True))
            elif kind == 'nested3':
                out.append(one('Outer3', step[1], 0, True, keep_spans=True))
            elif kind == 'orders':
                out.append(order_outcomes(case['id']))
            elif kind == 'accum':
                # inline Python outside the modelled repertoire (mutable accumulators): the isolated outcome of each
                # call is what a freshly compiled module returns for it as its first call
                here = accum_results(mod, step[1])
                fresh = []
                for t in step[1]:
                    m2 = sourcer.Grammar(desc.replace('grammar vg_c18\n', ''))
                    fresh.append(accum_results(m2, [t])[0])
                out.append([here, fresh])
            elif kind == 'siblings':
                # two grammars that extend this one, override nothing and use the same new rule names
                try:
                    s1 = sourcer.Grammar('grammar vg_c18_sib1 extends vg_c18\nExtra = Word\nMore = [Extra, "!"]\n')
                    before = [realrun.call_parse(s1, s1.More.parse, t, 0, True) for t in ('ab!', 'ab', '7!')]
                    s2 = sourcer.Grammar('grammar vg_c18_sib2 extends vg_c18\nExtra = /[0-9]+/\nMore = [Extra, "?"]\n')
                    after = [realrun.call_parse(s1, s1.More.parse, t, 0, True) for t in ('ab!', 'ab', '7!')]
                    other = [realrun.call_parse(s2, s2.More.parse, t, 0, True) for t in ('7?', 'ab?')]
                    out.append(['siblings', before, after, other])
                except Exception as e:  # noqa
                    out.append(['siblings-exc', type(e).__name__, str(e)[:150]])
    finally:
        rt.enable(False)
        events = rt.drain()
        for n in case.get('installed', []):
            sys.modules.pop(n, None)
    return {'id': case['id'], 'desc': desc, 'build': ['ok'], 'obs': out, 'events': events}


engine.register('history_worker', history_worker)


SCHED_PRELUDE = '''```
from sourcer_verif_rt import gate as _vgate
```
'''


def sched_grammar():
    """One callback point per consumed character (the callback is an identity function that waits at the turnstile)."""
    item = ['apply', ['rx', gen.cls('ab'), False], ['py', ['lam', 'same', ['k', ['none']]]]]
    rules = {
        'start': {'kind': 'rule', 'params': [], 'body': ['seq', [['list', ['ref', 'Item'], ['none'], ['none']], ['opt', ['ref', 'Tail']]]]},
        'Item': {'kind': 'class', 'params': [], 'members': [['field', 'c', item]]},
        'Tail': {'kind': 'rule', 'params': [], 'body': ['choice', [S('!'), ['seq', [S('?'), ['ref', 'Tail']]]]]},
    }
    return {'rules': rules, 'ign': [], 'start': 'start'}


def sched_worker(case):
    """Enforce every schedule of the batch on real threads with a turnstile."""
    import sys
    import threading
    import sourcer
    import sourcer_verif_rt as rt
    mod = sourcer.Grammar(case['desc'])
    out = []
    rt.drain()
    rt.enable(True)
    try:
        for sched in case['schedules']:
            actors = {}
            results = {}

            def body(c, text):
                rt.set_actor(actors[c])
                actors[c].go.acquire()
                d0 = rt.open_depth()
                o = realrun.call_parse(mod, mod.parse, text, 0, True, per_case_timeout=1e9)   # (SIGALRM is main-thread only)
                if o[0] in ('exc', 'timeout'):
                    rt.abort_open(d0)
                results[c] = o
                actors[c].arrived.release()
            threads = {}
            for c, text in case['texts'].items():
                c = int(c)
                actors[c] = rt.Actor()
                threads[c] = threading.Thread(target=body, args=(c, text), daemon=True)
                threads[c].start()
            problem = None
            for c in sched:
                if c == 0:
                    try:
                        sourcer.Grammar(case['compile'][len(out) % len(case['compile'])])
                    except Exception as e:  # noqa
                        problem = 'Grammar() in the schedule raised %s' % type(e).__name__
                    continue
                actors[c].go.release()
                if not actors[c].arrived.acquire(timeout=20):
                    problem = 'actor %d did not reach its next callback point' % c
                    break
            for t in threads.values():
                t.join(timeout=5)
            out.append([sched, {str(c): results.get(c) for c in actors}, problem])
    finally:
        rt.enable(False)
        events = rt.drain()
        for n in ('vg_c18s', 'vg_c18s_child'):
            sys.modules.pop(n, None)
    return {'id': case['id'], 'desc': case['desc'], 'build': ['ok'], 'obs': out, 'events': events}


engine.register('sched_worker', sched_worker)


def enforced_schedules(chk):
    """Every interleaving (at callback granularity) of two parses and one Grammar() construction, enumerated by TLC."""
    scheds = []
    r = tlc.run('MC_Sched', 'MC_Sched', on_json=lambda o: scheds.append(o['schedule']), timeout_s=600, workers=4)
    chk.add_tlc(r, 'MC_Sched')
    if not scheds:
        raise MachineryFailure('MC_Sched emitted no schedule')
    g = sched_grammar()
    texts = {1: 'ab!', 2: 'ba??!'}
    ocase = [{'id': 0, 'g': g, 'runs': [['start', T(texts[1]), 0], ['start', T(texts[2]), 0]]}]
    pegcheck.with_oracle(chk, ocase)
    exp = {1: ocase[0]['exp'][0], 2: ocase[0]['exp'][1]}
    body = render.grammar(g)
    named = 'grammar vg_c18s\n' + SCHED_PRELUDE + body
    compiles = ['start = "unrelated"\n',
                'grammar vg_c18s_child extends vg_c18s\nTail = "!!"\n',
                'grammar vg_c18s\nstart = "same name, other grammar"\n']
    cases = []
    per = max(1, len(scheds) // 16 + 1)
    for i in range(0, len(scheds), per):
        cases.append({'id': i, 'desc': named, 'schedules': scheds[i:i + per], 'texts': texts, 'compile': compiles})
    recs = engine.run_real(cases, fn='sched_worker', hooks=True, batch=1, confirm_timeouts=False)
    reclist = []
    for c in cases:
        rec = recs[c['id']]
        if rec['build'][0] != 'ok':
            raise MachineryFailure('schedule worker: %r' % (rec['build'],))
        for sched, results, problem in rec['obs']:
            chk.traces += 1
            if problem:
                chk.violation('schedule %s: %s' % (sched, problem), {'schedule': sched, 'problem': problem})
                continue
            for a in (1, 2):
                o = results.get(str(a))
                chk.count(['schedule', sched, a], True)
                why = engine.judge_run(exp[a], o, 0) if o else 'no result'
                if why:
                    chk.violation('%s | call %d (text %r) under schedule %s | isolated outcome (spec) %s | observed %s'
                                  % (why, a, texts[a], sched, exp[a], o),
                                  {'schedule': sched, 'call': a, 'expected': exp[a], 'observed': o})
        reclist.append(rec)
    chk.notes['enforced_schedules'] = len(scheds)
    chk.notes['schedule_events_validated'] = sum(len(r['events']) for r in reclist)
    if len(chk.samples) < 4:
        chk.sample({'schedule': scheds[len(scheds) // 2], 'texts': texts, 'isolated_outcomes': {1: exp[1][:3], 2: exp[2][:3]}})
    for rec, consumed, bad, inv in tracecheck.validate_cases(chk, reclist, 'schedules', per_batch=4):
        chk.violation('driver trace of enforced schedules rejected by Trace_Packrat at event %d: %s %s'
                      % (consumed + 1, json.dumps(bad)[:300], inv or ''), {'rejected_event': bad})


def run(chk):
    chk.rule = ('cases = histories and schedules of parse calls on one compiled module: every interleaving (at '
                'inline-Python callback granularity) of two parses and one Grammar() construction, enumerated by TLC '
                '(MC_Sched) and ENFORCED on real threads with a turnstile; sequential histories mixing successful, '
                'failing and user-code-raising calls in seeded random orders, the same calls from 8 threads with a '
                '1 microsecond switch interval, nested parses started from inline Python, and Grammar() constructions '
                '(another grammar, one extending the module, one reusing its name) in between; every outcome is '
                'compared with the outcome PegSem assigns to the call in isolation; the interleaved driver traces of '
                'the threaded runs are validated by TLC against Trace_Packrat; MC_Packrat model-checks Isolation and '
                'OutcomeIndependent over all interleavings of 2 calls; non-trivial = call that matches or fails beyond '
                'its offset; distinct by (history position, text)')
    chk.assumptions += ['OS-level preemption points cannot be enumerated; the model shows there is no shared mutable '
                        'state per call (Isolation), the threaded stress + trace validation would expose some',
                        'expected outcomes: PegSem via Oracle.tla, runs on which the modelled user code raises are '
                        'expected to propagate that exception and nothing else']
    r = tlc.run('MC_Packrat', 'MC_Packrat_quick' if chk.tier == 'quick' else 'MC_Packrat_thorough', timeout_s=3000)
    chk.add_tlc(r, 'MC_Packrat')
    if not r.ok:
        raise MachineryFailure('MC_Packrat did not complete')

    enforced_schedules(chk)

    rng = random.Random(chk.seed * 7919 + 18)
    g = grammar()
    desc = (PRELUDE + render.grammar(g)
            + 'Outer = /[ab,=]+/ |> `lambda s: [s, _vnested(s.split(",")[0].split("=")[0])]`\n'
            # the nested parse happens in the first alternative; the second one asks for the same rules again
            + 'Outer2 = [Word, Nest, "!"] | [Word, Nest, "?"]\n'
            + 'Nest = "=" >> (Word |> `lambda s: _vnested(s)`)\n'
            # the nested parse returns a class instance, which becomes part of the outer parse's result
            + 'Outer3 = [Pair, ";" >> (/[ab=]+/ |> `lambda s: _vnested_obj(s)`), (";" >> Pair)?]\n' + ACCUM)
    words = ['a', 'b', 'ab', 'bb', 'ba', 'abb', 'bb', 'aab']
    texts = []
    for _ in range(60 if chk.tier == 'quick' else 400):
        n = rng.randint(1, 4)
        items = []
        for _ in range(n):
            w = rng.choice(words)
            items.append(w + '=' + rng.choice(words) if rng.random() < 0.4 else w)
        t = ','.join(items) + rng.choice(['', '', ',', '=', ',,', 'c'])
        texts.append(t)
    texts += ['', 'bb', 'a,bb', 'a=bb,a', 'a,', 'ab=ab']
    entries = ['start', 'Item', 'Word', 'Pair']
    calls = [(rng.choice(entries), t, rng.choice([0, 0, 0, 1]) if len(t) > 1 else 0) for t in texts]
    ocase = [{'id': 0, 'g': g, 'runs': [[e, T(t), p] for (e, t, p) in calls]}]
    pegcheck.with_oracle(chk, ocase)
    exp = {(e, t, p): x for (e, t, p), x in zip(calls, ocase[0]['exp'])}

    other = 'start = "zzz"\n'
    named = 'grammar vg_c18\n' + desc
    ext = 'grammar vg_c18_child extends vg_c18\nWord = /[abc]+/\n'
    reuse = 'grammar vg_c18\nstart = "nothing like before"\nWord = "q"\n'
    hist_cases = []
    nh = 12 if chk.tier == 'quick' else 80
    for h in range(nh):
        steps = []
        order = calls[:]
        rng.shuffle(order)
        for (e, t, p) in order[: 40]:
            steps.append(['parse', e, t, p])
            if rng.random() < 0.1:
                steps.append(['compile', rng.choice([other, ext, reuse]) if h % 2 else other])
        tcalls = [rng.choice(calls) for _ in range(8)]
        steps.append(['threads', [[e, t, p] for (e, t, p) in tcalls], 20])
        for (e, t, p) in order[40: 60]:
            steps.append(['parse', e, t, p])
        steps.append(['nested', 'ab=ba,b'])
        steps.append(['nested', 'bb,a'])
        steps.append(['nested2', 'ab=ba?'])
        steps.append(['nested2', 'a=b!'])
        steps.append(['nested3', 'a=b;ab=ba'])
        steps.append(['nested3', 'ab=a;b=b;a=ab'])
        steps.append(['orders'])
        steps.append(['accum', ['ab,b', 'a', 'ab,b', 'zz', 'b,a,b']])
        if h % 2:
            steps.append(['siblings'])
            steps.append(['accum', ['a,a']])
        hist_cases.append({'id': h, 'desc': named if h % 2 else desc, 'steps': steps, 'trace': True,
                           'installed': ['vg_c18', 'vg_c18_child', 'vg_c18_sib1', 'vg_c18_sib2']})
    recs = engine.run_real(hist_cases, fn='history_worker', hooks=True, batch=1)

    def judge(call, o, where):
        e, t, p = call
        x = exp[(e, t, p)]
        key = [where, e, t, p]
        if x[0] == 'ill':
            chk.count(key, True)
            if not (o[0] == 'exc' and o[1] == '_VBoom'):
                chk.violation('the call on which user code raises must propagate that exception | %s.parse(%r, %d) in %s '
                              '| observed %s' % (e, t, p, where, o), {'call': call, 'observed': o, 'where': where})
            return
        chk.count(key, x[0] == 'ok' or x[3] > p)
        why = engine.judge_run(x, o, p)
        if why:
            chk.violation('%s | %s.parse(%r, %d) in %s | isolated outcome (spec) %s | observed %s'
                          % (why, e, t, p, where, x, o), {'call': call, 'expected': x, 'observed': o, 'where': where})

    reclist = []
    for hc in hist_cases:
        rec = recs[hc['id']]
        if rec['build'][0] != 'ok':
            raise MachineryFailure('history worker failed: %r' % (rec['build'],))
        chk.traces += 1
        for step, o in zip(hc['steps'], rec['obs']):
            if step[0] == 'parse':
                judge((step[1], step[2], step[3]), o, 'sequential history %d' % hc['id'])
            elif step[0] == 'threads':
                for call, results in zip(step[1], o):
                    for res in results:
                        judge(tuple(call), res, 'threaded history %d' % hc['id'])
            elif step[0] == 'compile':
                if o[0] != 'compiled':
                    chk.notes.setdefault('compile_problems', []).append(o)
            elif step[0] == 'accum':
                here, fresh = o
                for t, a, b in zip(step[1], here, fresh):
                    chk.count(['accum', hc['id'], t], True)
                    if a != b:
                        chk.violation('a call on a module with history differs from the same call on a freshly compiled '
                                      'module | Acc.parse(%r) | fresh %s | observed %s' % (t, b, a),
                                      {'text': t, 'fresh': b, 'observed': a})
            elif step[0] == 'siblings':
                chk.count(['siblings', hc['id']], True)
                if o[0] != 'siblings':
                    chk.violation('creating sibling extenders failed: %s' % (o,), {'observed': o})
                elif o[1] != o[2]:
                    chk.violation('compiling a second grammar that extends the same base altered the first one | before %s '
                                  '| after %s' % (o[1], o[2]), {'before': o[1], 'after': o[2]})
            elif step[0] == 'orders':
                chk.count(['orders', hc['id']], True)
                res = o[1]
                bad = [k for k, v in res.items() if v and v[0] == 'exc']
                if bad:
                    chk.violation('creating the base / extending pair failed: %s' % (res[bad[0]],), {'observed': res})
                else:
                    names = sorted(res)
                    for i, call in enumerate(ORD_CALLS):
                        outs = [res[n][i] for n in names]
                        if any(x != outs[0] for x in outs[1:]):
                            chk.violation('the outcome of a call depends on which calls were made before (base grammar and '
                                          'a grammar extending it) | call %s | %s'
                                          % (list(call), ' | '.join('%s: %s' % (n, x) for n, x in zip(names, outs))),
                                          {'call': list(call), 'outcomes': dict(zip(names, outs))})
            elif step[0] == 'nested3':
                t = step[1]
                parts = t.split(';')

                def pair(x, off):
                    # positions: of the outer text for the outer parse's own instances (offset `off`), of the nested
                    # text (offset 0) for the instance the nested parse returned; all on line 1
                    l, r = x.split('=')
                    return ['o', 'Pair', [['l', ['s', T(l)]], ['r', ['s', T(r)]]],
                            [[off, 1, off + 1], [off + len(x) - 1, 1, off + len(x)]]]
                want = ['ok', ['l', [pair(parts[0], 0), pair(parts[1], 0),
                                     pair(parts[2], len(parts[0]) + len(parts[1]) + 2) if len(parts) > 2 else ['none']]], len(t)]
                chk.count(['nested3', t], True)
                if o[:3] != want:
                    chk.violation('nested parse whose result (a class instance) becomes part of the outer result: '
                                  'expected %s, observed %s' % (want, o), {'text': t, 'observed': o})
            elif step[0] == 'nested2':
                t = step[1]
                w1, w2 = t[:-1].split('=')
                want = ['ok', ['l', [['s', T(w1)], ['s', T(w2)], ['s', T(t[-1])]]], len(t)]
                chk.count(['nested2', t], True)
                if o[:3] != want:
                    chk.violation('nested parse inside an abandoned alternative: expected %s, observed %s' % (want, o),
                                  {'text': t, 'observed': o})
            elif step[0] == 'nested':
                t = step[1]
                inner = t.split(',')[0].split('=')[0]
                want = ['ok', ['l', [['s', T(t)], ['s', T(inner)]]], len(t)]
                chk.count(['nested', t], True)
                if o[:3] != want:
                    chk.violation('nested parse from inline Python: expected %s, observed %s' % (want, o),
                                  {'text': t, 'observed': o})
        reclist.append(rec)
        if len(chk.samples) < 2:
            chk.sample({'history': [s[:4] for s in hc['steps'][:6]], 'observed': rec['obs'][:6]})
    chk.notes['driver_events_validated'] = sum(len(r['events']) for r in reclist)
    for rec, consumed, bad, inv in tracecheck.validate_cases(chk, reclist, 'threads', per_batch=4):
        chk.violation('interleaved driver trace rejected by Trace_Packrat at event %d: %s %s'
                      % (consumed + 1, json.dumps(bad)[:300], inv or ''), {'rejected_event': bad})
