"""Seeded random generators of abstract grammars (deeper shapes than the
TLC-enumerated families).  Generated cases carry no expectations: those
come from the specification through tlc.oracle()."""
import itertools
import random


def T(s):
    return [ord(c) for c in s]


def S(s):
    return ['str', T(s)]


def cls(s):
    return ['c', T(s)]


RX_A_PLUS = ['rx', ['plus', cls('a'), True], False]
RX_A_STAR = ['rx', ['star', cls('a'), True], False]
RX_B_OR_AB = ['rx', ['alt', [cls('b'), ['cat', [cls('a'), cls('b')]]]], False]
RX_AB_CLASS = ['rx', cls('ab'), False]
RX_A_LAZY = ['rx', ['cat', [['plus', cls('a'), False], cls('b')]], False]
RX_ICASE = ['rx', ['plus', cls('a'), True], True]
RX_ANY_STAR = ['rx', ['star', cls('abAB, ;-0123456789'), True], False]

NONE = ['none']


def N(k):
    return ['n', k]


def all_texts(alphabet, maxlen):
    out = []
    for n in range(maxlen + 1):
        for t in itertools.product(alphabet, repeat=n):
            out.append(T(''.join(t)))
    return out


class CoreGen:
    """Random expressions over the C01 constructs."""

    def __init__(self, rng, refs=('R1', 'R2'), bytes_mode=False, allow_back=True):
        self.rng = rng
        self.refs = list(refs)
        self.bm = bytes_mode
        self.allow_back = allow_back

    def leaf(self):
        r = self.rng
        leaves = [S('a'), S('b'), S('ab'), S('ba'), S('aa'), S(''), RX_A_PLUS, RX_A_STAR,
                  RX_B_OR_AB, RX_AB_CLASS, RX_A_LAZY, ['fail']]
        if not self.bm:
            leaves += [['stri', T('a')], ['stri', T('Ab')], RX_ICASE, ['stri', T('a.')], ['stri', T('b|a')], ['stri', T('a+')]]
        else:
            leaves += [['byte', 97], ['byte', 98], ['byte', 0], ['byte', 255]]
        if self.allow_back:
            leaves.append(['back', 1])
        leaves += [['ref', x] for x in self.refs]
        leaves.append(['py', ['k', ['i', 7]]])
        return r.choice(leaves)

    def expr(self, depth):
        r = self.rng
        if depth <= 0 or r.random() < 0.15:
            return self.leaf()
        k = r.choice(['seq', 'seq', 'left', 'right', 'choice', 'choice', 'opt', 'star', 'plus',
                      'rep', 'sep', 'expect', 'not', 'skip', 'longest'])
        def X():
            x = self.expr(depth - 1)
            # the constructor forms read a bare inline-Python operand as an option value
            if x[0] == 'py' and k in ('sep', 'expect', 'not', 'skip', 'longest'):
                return S('a')
            return x
        if k == 'seq':
            return ['seq', [X() for _ in range(r.choice([1, 2, 2, 3]))]]
        if k in ('left', 'right'):
            return [k, X(), X()]
        if k == 'choice':
            return ['choice', [X() for _ in range(r.choice([2, 2, 3]))]]
        if k == 'opt':
            return ['opt', X()]
        if k == 'star':
            return ['list', X(), NONE, NONE]
        if k == 'plus':
            return ['list', X(), N(1), NONE]
        if k == 'rep':
            lo, hi = r.choice([(2, 2), (1, 2), (2, None), (None, 2), (0, 1), (1, 1), (3, 3), (2, 3), (0, 0)])
            return ['list', X(), NONE if lo is None else N(lo), NONE if hi is None else N(hi)]
        if k == 'sep':
            opts = r.choice([[True, False, True, False], [True, True, True, False],
                             [False, False, True, False], [False, True, True, False],
                             [True, False, False, False], [True, True, False, True],
                             [True, True, True, True], [False, True, False, True],
                             [False, False, False, False], [True, True, False, False]])
            return ['sep', X(), X(), opts]
        if k == 'expect':
            return ['expect', X()]
        if k == 'not':
            return ['not', X()]
        if k == 'skip':
            return ['skip', [X() for _ in range(r.choice([1, 2]))]]
        if k == 'longest':
            return ['longest', [X() for _ in range(r.choice([2, 2, 3]))]]
        raise AssertionError(k)

    def grammar(self, depth):
        rules = {'start': {'kind': 'rule', 'params': [], 'body': self.expr(depth)}}
        # the referenced rules are small and never refer back (no left recursion)
        sub = CoreGen(self.rng, refs=(), bytes_mode=self.bm, allow_back=False)
        for x in self.refs:
            rules[x] = {'kind': 'rule', 'params': [], 'body': sub.expr(1)}
        return {'rules': rules, 'ign': [], 'start': 'start'}


class RepGen(CoreGen):
    """Random grammars in which most compound nodes are bounded repetitions or separated lists (C03)."""

    def expr(self, depth):
        r = self.rng
        if depth <= 0 or r.random() < 0.15:
            return r.choice([S('a'), S('b'), S(','), S('ab'), ['ref', 'R1'], RX_AB_CLASS, ['seq', [S('a'), S('b')]]])
        k = r.choice(['rep', 'rep', 'sep', 'sep', 'seq', 'choice', 'opt', 'expect', 'not', 'left'])
        X = lambda: self.expr(depth - 1)
        if k == 'rep':
            lo = r.choice([None, 0, 1, 2, 3])
            hi = r.choice([None, 1, 2, 3])
            if lo is not None and hi is not None and lo > hi:
                lo, hi = hi, lo
            return ['list', X(), NONE if lo is None else N(lo), NONE if hi is None else N(hi)]
        if k == 'sep':
            d, t, e, q = [r.random() < 0.5 for _ in range(4)]
            if q and not t:
                t = True
            return ['sep', X(), r.choice([S(','), ['seq', [S(','), S(',')]], ['choice', [S(','), S('b')]], X()]), [d, t, e, q]]
        if k == 'seq':
            return ['seq', [X() for _ in range(r.choice([2, 3]))]]
        if k == 'choice':
            return ['choice', [X(), X()]]
        if k == 'opt':
            return ['opt', X()]
        if k == 'expect':
            return ['expect', X()]
        if k == 'not':
            return ['not', X()]
        return ['left', X(), X()]


class OpGen:
    """Random operator tables (C02)."""
    SPELL = ['-', '+', '++', '-+', '!', '<', '*']

    def __init__(self, rng):
        self.rng = rng

    def table(self, max_rows=3, allow_mixfix=True):
        r = self.rng
        nrows = r.randint(1, max_rows)
        rows = []
        kinds = ['left', 'right', 'infix', 'prefix', 'postfix'] + (['mixfix'] if allow_mixfix else [])
        for _ in range(nrows):
            assoc = r.choice(kinds)
            if assoc == 'mixfix':
                ops = [['left', ['right', S('('), ['ref', 'E']], S(')')]]
            else:
                ops = [S(x) for x in r.sample(self.SPELL, r.choice([1, 1, 2]))]
            rows.append([assoc, ops])
        operand = r.choice([S('1'), ['ref', 'N'], ['ref', 'N'], ['seq', [S('1'), S('2')]],
                            ['choice', [S('1'), S('2')]], ['ref', 'M']])
        return ['optable', operand, rows]

    def grammar(self, max_rows=3, ctx=0):
        t = self.table(max_rows)
        body = t
        rest = ['rx', ['star', cls('12-+!<*() '), True], False]
        if ctx == 1:
            body = ['choice', [['left', ['ref', 'E'], S(';')], rest]]
        elif ctx == 2:
            body = ['seq', [['opt', ['left', ['ref', 'E'], S(';')]], rest]]
        elif ctx == 3:
            body = ['seq', [['ref', 'E'], rest]]
        elif ctx == 4:
            body = ['choice', [t, rest]]              # the table itself is the alternative
        elif ctx == 5:
            body = ['seq', [['opt', t], rest]]
        else:
            body = ['ref', 'E']
        rules = {
            'start': {'kind': 'rule', 'params': [], 'body': body},
            'E': {'kind': 'rule', 'params': [], 'body': t},
            'N': {'kind': 'rule', 'params': [], 'body': ['rx', cls('12'), False]},
            'M': {'kind': 'rule', 'params': [], 'body': ['seq', [S('1'), ['opt', S('2')]]]},
        }
        self.last_table = t
        return {'rules': rules, 'ign': [], 'start': 'start'}

    def sentence(self, maxlen=7, table=None):
        """Mostly well-formed sentences over the table's own operators, with
        truncations and stray tokens."""
        r = self.rng
        if table is None or r.random() < 0.15:
            toks = ['1', '2', '1', '-', '+', '++', '-+', '!', '<', '*', '(', ')', ';']
            return T(''.join(r.choice(toks) for _ in range(r.randint(0, maxlen))))
        pre, post, inf, mix = [], [], [], False
        for assoc, ops in table[2]:
            sp = [''.join(chr(c) for c in o[1]) for o in ops if o[0] == 'str']
            if assoc == 'prefix':
                pre += sp
            elif assoc == 'postfix':
                post += sp
            elif assoc == 'mixfix':
                mix = True
            else:
                inf += sp
        out = []

        def operand(depth):
            while pre and r.random() < 0.3:
                out.append(r.choice(pre))
            if mix and depth < 2 and r.random() < 0.2:
                out.append('(')
                expr(depth + 1)
                out.append(')')
            else:
                out.append(r.choice(['1', '2', '1', '12']))
            while post and r.random() < 0.3:
                out.append(r.choice(post))

        def expr(depth):
            operand(depth)
            while inf and r.random() < 0.6 and len(out) < maxlen:
                out.append(r.choice(inf))
                if r.random() < 0.12:
                    return
                operand(depth)

        expr(0)
        if r.random() < 0.3:
            out.append(r.choice([';', ';', ')', '1', '-', '+', '!']))
        if r.random() < 0.1 and out:
            out.pop(r.randrange(len(out)))
        return T(''.join(out))
