------------------------------ MODULE Oracle ------------------------------
(***************************************************************************)
(* The meaning layer as a service: reads cases (abstract grammar + runs)   *)
(* from the ndjson file named by the environment variable CASES and prints *)
(* one JSON line per case with PegSem's result for every run.  One TLC     *)
(* state per case, so the work is spread over all workers.                 *)
(*   case: [id, g, runs: << <<entry, text, pos>>, ... >>]                  *)
(*   out : [id, out: << <<t, v, end, far>>, ... >>]                        *)
(***************************************************************************)
EXTENDS PegSem, Json, IOUtils

Cases == ndJsonDeserialize(IOEnv.CASES)

VARIABLES i, done
vars == <<i, done>>

Init == i \in 1..Len(Cases) /\ done = FALSE

Res(c, k) ==
    LET run == c.runs[k]
        r == EvalEntry(c.g, run[1], run[2], run[3])
    IN <<r.t, r.v, r.e, r.far>>

Next == /\ ~done
        /\ done' = TRUE
        /\ i' = i
        /\ LET c == Cases[i] IN
           PrintT(ToJson([id |-> c.id, out |-> [k \in 1..Len(c.runs) |-> Res(c, k)]]))

Spec == Init /\ [][Next]_vars
=============================================================================
