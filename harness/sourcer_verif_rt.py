"""Runtime side of the SOURCER_VERIF hook (lives in /verif; on sys.path only inside checks).

The instrumented _run driver calls tracer() once per parse call and then
begin / push / hit / ret / end on the returned object.  Events are appended
to one global list under a lock, after the state change they describe; every
event carries its call id and a per-call sequence number, so per-call order
never depends on wall-clock time.
"""
import itertools
import sys
import threading

_lock = threading.Lock()
_events = []
_calls = itertools.count(1)
_enabled = False
_tls = threading.local()
_keep = []          # keeps result objects alive while a trace is being recorded (ids stay unique)


def enable(flag=True):
    global _enabled
    _enabled = flag


def drain():
    """Return and clear the recorded events."""
    global _events, _keep
    with _lock:
        out = _events
        _events = []
        _keep = []
    return out


def _depth():
    f = sys._getframe(2)
    n = 0
    while f is not None:
        n += 1
        f = f.f_back
    return n


def _emit(ev):
    with _lock:
        _events.append(ev)


class _Tracer:
    __slots__ = ('c', 'th', 'n', 'keys', 'rids', 'host0')

    def __init__(self):
        self.c = next(_calls)
        self.th = threading.get_ident() % 100000
        self.n = 0
        self.keys = {}
        self.rids = {}
        self.host0 = None
        open_calls = getattr(_tls, 'open', None)
        if open_calls is None:
            open_calls = _tls.open = []
        open_calls.append(self.c)

    def _key(self, key):
        try:
            k = self.keys.get(key)
            if k is None:
                k = self.keys[key] = len(self.keys) + 1
        except TypeError:
            k = -(id(key) % 1000000) - 1
        f = key[1]
        plain = type(f).__name__ != '_ParseFunction'
        if not plain and not f.args and not f.kwargs:
            # a parameterless rule handed over in a wrapper without arguments is still that rule
            plain = True
        name = getattr(f, '__name__', None) or getattr(getattr(f, 'func', None), '__name__', '?')
        return k, plain, name, key[2]

    def _res(self, result):
        st = bool(result[0])
        if not st:
            return False, result[2], 0
        v = result[1]
        i = id(v)
        r = self.rids.get(i)
        if r is None:
            r = self.rids[i] = len(self.rids) + 1
            _keep.append(v)
        return True, result[2], r

    def _ev(self, ev, key=None, result=None, depth=None):
        self.n += 1
        e = {'c': self.c, 'th': self.th, 'n': self.n, 'ev': ev, 'host': _depth() - (self.host0 or 0)}
        if key is not None:
            e['k'], e['plain'], e['rule'], e['pos'] = self._key(key)
        if result is not None:
            e['st'], e['e'], e['rid'] = self._res(result)
        if depth is not None:
            e['d'] = depth
        _emit(e)

    def begin(self, key):
        self.host0 = _depth() - 1
        self._ev('begin', key, depth=1)

    def push(self, key, depth):
        self._ev('push', key, depth=depth)

    def hit(self, key, result, depth):
        self._ev('hit', key, result, depth)

    def ret(self, key, result, depth):
        self._ev('ret', key, result, depth)

    def end(self, result):
        self._ev('end', None, result, 0)
        oc = getattr(_tls, 'open', [])
        if oc and oc[-1] == self.c:
            oc.pop()


def tracer():
    return _Tracer() if _enabled else None


def abort_open(upto=0):
    """Called by the harness after a parse call raised from user code: close the
    calls this thread left open (innermost first) with an 'abort' event."""
    oc = getattr(_tls, 'open', [])
    while len(oc) > upto:
        c = oc.pop()
        _emit({'c': c, 'th': threading.get_ident() % 100000, 'n': 10 ** 9, 'ev': 'abort', 'host': 0})


def open_depth():
    return len(getattr(_tls, 'open', []))


# ---------------------------------------------------------------------------
# hook-free probes: called from inline Python inside grammars under test
# ---------------------------------------------------------------------------
def probe(rule, pos):
    """`Expect(/(?s).*/) |> (lambda r: probe(name, len(r)))` style probes call this
    with the remaining length; the harness converts it to a position."""
    _emit({'ev': 'body', 'rule': rule, 'rem': pos, 'th': threading.get_ident() % 100000})
    return None


def mark(ev, **kw):
    e = {'ev': ev, 'th': threading.get_ident() % 100000}
    e.update(kw)
    _emit(e)


# ---------------------------------------------------------------------------
# turnstile for enforced thread schedules (C18): inline Python in the grammar calls gate()
# ---------------------------------------------------------------------------
class Actor:
    def __init__(self):
        self.go = threading.Semaphore(0)
        self.arrived = threading.Semaphore(0)


def set_actor(actor):
    _tls.actor = actor


def gate(value=None):
    """Called from inline Python at a callback point: tell the scheduler this thread has arrived and wait for its turn."""
    actor = getattr(_tls, 'actor', None)
    if actor is not None:
        actor.arrived.release()
        if not actor.go.acquire(timeout=20):
            raise RuntimeError('turnstile: the scheduler never resumed this thread')
    return value
