#!/usr/bin/env python3
"""tools/archive_seed.py <out-dir> <N> <seed-id> <caught_by> [note]  -> /verif/seeded/<seed-id>/"""
import json, os, shutil, sys
d, n, sid, caught = sys.argv[1:5]
note = sys.argv[5] if len(sys.argv) > 5 else ''
dst = os.path.join('/verif/seeded', sid)
os.makedirs(dst, exist_ok=True)
shutil.copy(os.path.join(d, 'patch%s.diff' % n), os.path.join(dst, 'patch.diff'))
shutil.copy(os.path.join(d, 'demo%s.py' % n), os.path.join(dst, 'demo.py'))
meta = json.load(open(os.path.join(d, 'meta%s.json' % n)))
meta['confirmed'] = ('applied with git -C /repo apply; existing suite: 52 passed; demo.py exits non-zero with the change '
                     'and 0 without it (tools/try_seed.sh)')
meta['caught_by'] = caught
meta['note'] = note
json.dump(meta, open(os.path.join(dst, 'meta.json'), 'w'), indent=1)
print(sid, '->', dst)
