------------------------------- MODULE MC_C01 -------------------------------
(***************************************************************************)
(* C01 - PEG semantics of the core expressions.                            *)
(* Family: every parent/child combination of the core forms over a leaf    *)
(* set chosen so that every static decision of the generator has a         *)
(* witness (literals that cannot fail half-way, compounds that can,        *)
(* total and partial expressions), each placed in the continuation         *)
(* contexts that make "a failed attempt leaves no trace" observable.       *)
(* One behaviour per member: Init picks it, Step evaluates PegSem on every *)
(* text and emits the case for replay; the invariants are laws of the      *)
(* meaning layer that hold for every member and every text.                *)
(***************************************************************************)
EXTENDS Shapes01

CONSTANTS Shard, NShards

VARIABLES sh, c, bm, done
vars == <<sh, c, bm, done>>

e == Ctx(c, Build(sh))

Init == /\ \/ /\ bm = FALSE
              /\ \/ sh \in Recipes(Leaves, IF Tier = "quick" THEN SmallLeaves ELSE Leaves)
                 \/ (Tier # "quick" /\ sh \in Recipes3(SmallLeaves))
           \/ /\ bm = TRUE                      \* bytes mode
              /\ sh \in Recipes(LeavesB, {<<"byte", a>>, Str(<<a, b>>), Ref("R1")})
              /\ (Tier = "quick" => sh[1] <= 2)
        /\ c \in CtxIds(sh)
        /\ (c % NShards) = Shard           \* the thorough tier enumerates the family context by context (memory of the replay)
        /\ Renderable(e)
        /\ done = FALSE

Step == /\ ~done
        /\ done' = TRUE
        /\ UNCHANGED <<sh, c, bm>>
        /\ EmitCase(Grammar(e), IF bm THEN [prop |-> "C01", bytes |-> TRUE] ELSE [prop |-> "C01"], <<"start">>, Texts)

Next == Step

(* ---- laws of the meaning layer (checked in every state, on every text) ---- *)
RECURSIVE BackFree(_)
BackFree(x) ==
    CASE x[1] = "back" -> FALSE
      [] x[1] \in {"seq", "choice", "skip", "longest"} -> \A i \in 1..Len(x[2]) : BackFree(x[2][i])
      [] x[1] \in {"left", "right", "sep"} -> BackFree(x[2]) /\ BackFree(x[3])
      [] x[1] \in {"opt", "list", "expect", "not"} -> BackFree(x[2])
      [] OTHER -> TRUE

\* results are well formed: ends within the text; far bounds the end; lookahead consumes nothing
LawSane ==
    done =>     \* evaluated on the successor state, i.e. by the worker threads
    \A k \in 1..Len(Texts) :
        LET r == EvalEntry(Grammar(e), "start", Texts[k], 0) IN
        r.t = "ok" => (r.e >= 0 /\ r.e <= Len(Texts[k]) /\ r.far >= r.e /\ r.far <= Len(Texts[k]))

\* parsing from offset k equals parsing the suffix from 0, shifted (no lookbehind)
LawShift ==
    (done /\ BackFree(e)) =>
    \A k \in 1..Len(Texts) :
        LET t == Texts[k] IN
        Len(t) >= 1 =>
          LET r1 == EvalEntry(Grammar(e), "start", t, 1)
              r0 == EvalEntry(Grammar(e), "start", Tail(t), 0)
          IN r1.t = r0.t /\ (r1.t = "ok" => (r1.v = r0.v /\ r1.e = r0.e + 1))
=============================================================================
