CONSTANTS
  Tier = "thorough"
INIT Init
NEXT Next
INVARIANT LawWrapTransparent
CHECK_DEADLOCK FALSE
