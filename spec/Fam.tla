-------------------------------- MODULE Fam --------------------------------
(***************************************************************************)
(* Shared vocabulary of the bounded grammar families: constructors for the *)
(* abstract syntax of PegSem, text enumerations, and the emission of one   *)
(* case (grammar + every run with the result PegSem assigns to it) as a    *)
(* JSON line.  The MC_Cxx modules define `Family` and a one-step behaviour *)
(* per member:  Init picks a member, Next evaluates and emits it.          *)
(***************************************************************************)
EXTENDS PegSem, Json, SequencesExt

a == 97
b == 98
bigA == 65
bigB == 66

Str(s)   == <<"str", s>>
StrI(s)  == <<"stri", s>>
Cls(s)   == <<"c", s>>
Rgx(r)   == <<"rx", r, FALSE>>
RgxI(r)  == <<"rx", r, TRUE>>
Ref(x)   == <<"ref", x>>
Seq2(x, y) == <<"seq", <<x, y>>>>
Seq1(x)  == <<"seq", <<x>>>>
Seq3(x, y, z) == <<"seq", <<x, y, z>>>>
Left(x, y)  == <<"left", x, y>>
Right(x, y) == <<"right", x, y>>
Ch2(x, y)   == <<"choice", <<x, y>>>>
Ch3(x, y, z) == <<"choice", <<x, y, z>>>>
Opt(x)   == <<"opt", x>>
NoB      == <<"none">>
Nb(k)    == <<"n", k>>
Nm(x)    == <<"name", x>>
Rep(x, lo, hi) == <<"list", x, lo, hi>>
Star(x)  == Rep(x, NoB, NoB)
Plus(x)  == Rep(x, Nb(1), NoB)
Sep(x, s, o) == <<"sep", x, s, o>>
SepPlain(x, s)   == Sep(x, s, <<TRUE, FALSE, TRUE, FALSE>>)     \* x // s
SepTrailer(x, s) == Sep(x, s, <<TRUE, TRUE, TRUE, FALSE>>)      \* x /? s
Expect(x) == <<"expect", x>>
Not(x)    == <<"not", x>>
Skip1(x)  == <<"skip", <<x>>>>
Skip2(x, y) == <<"skip", <<x, y>>>>
Long2(x, y) == <<"longest", <<x, y>>>>
Long3(x, y, z) == <<"longest", <<x, y, z>>>>
Back(n)   == <<"back", n>>
FailE     == <<"fail">>
Let(x, e, body) == <<"let", x, e, body>>
Where(e, f) == <<"where", e, f>>
Apply(x, f) == <<"apply", x, f>>
ApplyL(f, x) == <<"applyl", f, x>>
Py(P)     == <<"py", P>>
PyInt(n)  == Py(<<"k", <<"i", n>>>>)
PyVar(x)  == Py(<<"var", x>>)
Call(x, args) == <<"call", x, args>>
Pos(e)    == <<"pos", e>>
Kw(n, e)  == <<"kw", n, e>>

RxPlus(r) == <<"plus", r, TRUE>>
RxStarG(r) == <<"star", r, TRUE>>
RxCat2(x, y) == <<"cat", <<x, y>>>>
RxAlt2(x, y) == <<"alt", <<x, y>>>>

APlus  == Rgx(RxPlus(Cls(<<a>>)))                         \* /a+/
AStar  == Rgx(RxStarG(Cls(<<a>>)))                        \* /a*/
BorAB  == Rgx(RxAlt2(Cls(<<b>>), RxCat2(Cls(<<a>>), Cls(<<b>>))))   \* /b|ab/
ALazyB == Rgx(RxCat2(<<"plus", Cls(<<a>>), FALSE>>, Cls(<<b>>)))    \* /a+?b/
AnyAB  == Rgx(Cls(<<a, b>>))                              \* /[ab]/
Rest   == Rgx(RxStarG(Cls(<<a, b, bigA, bigB, 44, 59, 32, 45, 48, 49, 50, 51>>)))  \* rest of the input

Rule(body) == [kind |-> "rule", params |-> <<>>, body |-> body]
RuleP(ps, body) == [kind |-> "rule", params |-> ps, body |-> body]
Class(ms) == [kind |-> "class", params |-> <<>>, members |-> ms]
ClassP(ps, ms) == [kind |-> "class", params |-> ps, members |-> ms]
Field(n, e) == <<"field", n, e>>
LetF(n, e)  == <<"let", n, e>>
PassM(e)    == <<"pass", "", e>>
Req(P)      == <<"req", "", P>>

(* all texts over alphabet A (a set of code points) of length <= n *)
TextsUpTo(A, n) == UNION {[1..k -> A] : k \in 0..n}

(* the same as a sequence (alphabet given as a sequence), shortest first *)
RECURSIVE TextsOfLen(_, _)
TextsOfLen(al, n) ==
    IF n = 0 THEN << <<>> >>
    ELSE LET prev == TextsOfLen(al, n - 1)
             ext[i \in 0..Len(prev)] ==
                 IF i = 0 THEN <<>>
                 ELSE ext[i - 1] \o [j \in 1..Len(al) |-> Append(prev[i], al[j])]
         IN ext[Len(prev)]
RECURSIVE TextSeqUpTo(_, _)
TextSeqUpTo(al, n) == IF n = 0 THEN << <<>> >> ELSE TextSeqUpTo(al, n - 1) \o TextsOfLen(al, n)

Run(G, entry, txt, p) ==
    LET r == EvalEntry(G, entry, txt, p) IN <<entry, txt, p, r.t, r.v, r.e, r.far>>

(* a run of a curried class entry point: entry is emitted as <<name, values>> *)
RunArgs(G, entry, vals, txt, p) ==
    LET r == EvalEntryArgs(G, entry, vals, txt, p) IN <<<<entry, vals>>, txt, p, r.t, r.v, r.e, r.far>>

(* every position of every text *)
RECURSIVE AllPos(_, _, _)
AllPos(texts, i, p) ==
    IF i > Len(texts) THEN <<>>
    ELSE IF p > Len(texts[i]) THEN AllPos(texts, i + 1, 0)
    ELSE << <<texts[i], p>> >> \o AllPos(texts, i, p + 1)

(* one JSON line: grammar, configuration, runs of `entries` x (text, pos) pairs *)
EmitCasePos(G, cfg, entries, tps) ==
    PrintT(ToJson([g |-> G, cfg |-> cfg,
                   runs |-> [k \in 1..(Len(entries) * Len(tps)) |->
                               LET en == entries[((k - 1) \div Len(tps)) + 1]
                                   tp == tps[((k - 1) % Len(tps)) + 1]
                               IN Run(G, en, tp[1], tp[2])]]))

(* one JSON line: the grammar, its configuration, and every run *)
EmitCase(G, cfg, entries, texts) ==
    PrintT(ToJson([g |-> G, cfg |-> cfg,
                   runs |-> [k \in 1..(Len(entries) * Len(texts)) |->
                               Run(G, entries[((k - 1) \div Len(texts)) + 1],
                                   texts[((k - 1) % Len(texts)) + 1], 0)]]))
=============================================================================
