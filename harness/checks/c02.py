"""C02 - operator tables build the tree dictated by precedence and associativity."""
import random

import gen
import pegcheck


def run(chk):
    chk.rule = ('cases = (grammar with an operator table, token string); tables enumerated by TLC (MC_C02: all tables '
                'of 1..2 (thorough: 3) rows x associativities x colliding operator spellings x operand kinds x '
                'enclosing contexts, all token strings up to the bound) plus seeded random tables with up to 4 '
                'rows and longer mostly-well-formed sentences judged by the same Pratt-style definition '
                '(PegSem!OpExpr); non-trivial = well-formed per the specification; distinct by (description, input)')
    chk.assumptions += [
        'the Pratt-style definition PegSem!OpExpr/OpLed is the reading of the property: tighter rows first, '
        'left/right by binding power, a second non-associative operator directly chained onto its own row or an '
        'operator without operand ends the whole expression; LawFlatten (tree read in order = consumed input) is '
        'model-checked on every table and input',
        'mechanism layer: the shunting-yard machine of operator_table.py is transcribed in PegVM (OTLoop: two stacks, '
        'commit marker, two checkpoints, static flags); MC_C02 checks LawVMRefines on every table of one or two rows and '
        'every input: the machine computes the Pratt-style meaning, a failing table that claims it cannot partially '
        'succeed leaves the position alone, and it never pops an empty stack or spins; OracleVM checks the same on '
        'the random tables (3-4 rows)',
    ]
    cases = pegcheck.collect(chk, 'MC_C02', 'MC_C02_' + chk.tier, timeout_s=3000)
    chk.notes['tlc_enumerated_grammars'] = len(cases)
    pegcheck.replay(chk, cases, sample_every=50021)
    rng = random.Random(chk.seed * 7919 + 2)
    n = 1200 if chk.tier == 'quick' else 15000
    rcases = []
    for i in range(n):
        og = gen.OpGen(rng)
        g = og.grammar(4 if i % 2 else 3, ctx=i % 6)
        texts = [og.sentence(maxlen=9 if i % 3 else 14, table=og.last_table) for _ in range(40)]
        rcases.append({'id': i, 'g': g, 'cfg': {'prop': 'C02'}, 'runs': [['start', t, 0] for t in texts]})
    pegcheck.with_oracle(chk, rcases, module='OracleVM')      # PegSem's results + VMAgrees (PegVM refines them)
    chk.notes['random_grammars'] = len(rcases)
    pegcheck.replay(chk, rcases, sample_every=9973)
