CONSTANTS
  Tier = "thorough"
INIT Init
NEXT Next
INVARIANT LawLengthen
CHECK_DEADLOCK FALSE
