"""Shared plumbing of the checks: result collection, known findings,
evidence files, replay files, exit codes."""
import hashlib
import json
import os
import sys
import time

HERE = os.path.dirname(os.path.abspath(__file__))
VERIF = os.path.dirname(HERE)
sys.path.insert(0, HERE)

EVIDENCE_DIR = os.path.join(VERIF, 'evidence')
REPLAY_DIR = os.path.join(VERIF, 'replays')
KNOWN = os.path.join(VERIF, 'known_findings.json')


class MachineryFailure(Exception):
    """Something in the verification machinery itself failed (exit 2)."""


def seed():
    try:
        return int(os.environ.get('VERIF_SEED', '0'))
    except ValueError:
        return 0


def load_known():
    if not os.path.exists(KNOWN):
        return {'findings': [], 'fixed': []}
    with open(KNOWN) as f:
        return json.load(f)


class Check:
    """Collects what one run of one check did."""

    def __init__(self, prop, tier, level='model_checking'):
        self.prop = prop
        self.tier = tier
        self.level = level
        self.seed = seed()
        self.t0 = time.time()
        self.violations = []          # dicts with 'what' and the case
        self.n_violations = 0
        self.known_hits = {}          # finding id -> [count, first witness text]
        self.known = [k for k in load_known().get('findings', []) if k.get('property') == prop]
        self.evaluations = 0          # runs compared against the real code
        self.nontrivial = set()       # digests of distinct non-trivial cases
        self.skipped_ill = 0
        self.samples = []
        self.states = 0
        self.transitions = 0
        self.traces = 0               # behaviours replayed into / traces validated against the impl
        self.tlc_cmds = []
        self.tlc_coverage = {}
        self.notes = {}
        self.assumptions = []
        self.rule = ''
        self.explanation = ''
        self.exhaustive = None
        self.machinery_error = None
        self.categories = {}

    # -- bookkeeping ------------------------------------------------------
    def add_tlc(self, run, label=None):
        self.states += run.distinct
        self.transitions += run.states
        self.tlc_cmds.append(run.cmd)
        if run.coverage:
            for k, v in run.coverage.items():
                self.tlc_coverage[(label + ':' if label else '') + k] = v
        if run.violation:
            raise MachineryFailure('the specification violates its own invariant (%s):\n%s'
                                   % (label or '', run.violation[:2000]))

    def count(self, key_obj, nontrivial=True):
        self.evaluations += 1
        if nontrivial:
            d = hashlib.blake2b(json.dumps(key_obj, sort_keys=True, default=str).encode(),
                                digest_size=8).digest()
            self.nontrivial.add(d)

    def sample(self, obj, limit=6):
        if len(self.samples) < limit:
            self.samples.append(obj)

    def match_known(self, classifier_tags, obs_sig):
        """Return the known finding that lists one of `classifier_tags` with the
        observed signature, or None."""
        for k in self.known:
            if k.get('tag') not in classifier_tags:
                continue
            if 'observed_any' in k:
                if obs_sig in k['observed_any']:
                    return k
            elif k.get('observed') is None or k.get('observed') == obs_sig:
                return k
        return None

    def violation(self, what, case, tags=(), obs_sig=None):
        k = self.match_known(tags, obs_sig) if tags else None
        if k is not None:
            hit = self.known_hits.setdefault(k['id'], [0, what, k])
            hit[0] += 1
            return False
        self.n_violations += 1
        self.categories[what.split(' | ')[0][:70]] = self.categories.get(what.split(' | ')[0][:70], 0) + 1
        if len(self.violations) < int(os.environ.get('VERIF_MAX_REPLAYS', '12')):
            self.violations.append({'property': self.prop, 'what': what, 'case': case})
        return True

    # -- finishing --------------------------------------------------------
    def finish(self):
        os.makedirs(EVIDENCE_DIR, exist_ok=True)
        wall = time.time() - self.t0
        for kid, (n, what, k) in sorted(self.known_hits.items()):
            print('KNOWN-FINDING: property=%s %s: %s (%d cases; e.g. %s)'
                  % (self.prop, kid, k.get('what', ''), n, what[:300]))
        paths = []
        d = os.path.join(REPLAY_DIR, self.prop)
        if os.path.isdir(d):
            for fn in os.listdir(d):           # replay files of earlier runs of this check are stale
                try:
                    os.unlink(os.path.join(d, fn))
                except OSError:
                    pass
        if self.violations:
            os.makedirs(d, exist_ok=True)
            for i, v in enumerate(self.violations):
                p = os.path.join(d, '%s-%s-%d.json' % (self.prop, self.tier, i))
                with open(p, 'w') as f:
                    json.dump(v, f, indent=1, default=str)
                paths.append(p)
        cov = {
            'states': self.states,
            'transitions': self.transitions,
            'traces_validated_against_impl': self.traces,
            'samples': self.samples[:8] or ['(no sample recorded)'],
            'evaluations': self.evaluations,
            'distinct_nontrivial': len(self.nontrivial),
            'rule': self.rule,
            'skipped_ill_formed': self.skipped_ill,
            'known_finding_cases': {k: v[0] for k, v in self.known_hits.items()},
            'tlc_commands': self.tlc_cmds[:12],
            'tlc_action_coverage': self.tlc_coverage,
            'explanation': self.explanation,
        }
        if self.exhaustive is not None:
            cov['exhaustive'] = self.exhaustive
        cov.update(self.notes)
        ev = {
            'property_id': self.prop,
            'tier': self.tier,
            'seed': self.seed,
            'level': self.level,
            'coverage': cov,
            'assumptions': self.assumptions,
            'wall_s': round(wall, 2),
            'violations': self.n_violations,
        }
        with open(os.path.join(EVIDENCE_DIR, self.prop + '.json'), 'w') as f:
            json.dump(ev, f, indent=1, default=str)
        if self.n_violations:
            for v, p in zip(self.violations, paths):
                print('VIOLATION property=%s replay=%s  # %s' % (self.prop, p, v['what'][:300]))
            for k, n in sorted(self.categories.items(), key=lambda kv: -kv[1])[:15]:
                print('  %6d x %s' % (n, k))
            if self.n_violations > len(paths):
                print('(%d further violating cases not written out)' % (self.n_violations - len(paths)))
            return 1
        print('OK property=%s tier=%s evaluations=%d distinct_nontrivial=%d states=%d traces=%d wall=%.1fs'
              % (self.prop, self.tier, self.evaluations, len(self.nontrivial), self.states, self.traces, wall))
        return 0
