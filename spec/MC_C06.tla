------------------------------- MODULE MC_C06 -------------------------------
(***************************************************************************)
(* C06 - parameterised rules behave like their expansion.                  *)
(* Family = call-site expression x {unnamed, named grammar}.  The call     *)
(* sites cover: literal / compound / data-dependent / value arguments,     *)
(* positional and keyword, hashable and unhashable values, nested and      *)
(* recursive instantiation, the same template instantiated differently at  *)
(* the same input position.  PegSem gives templates substitution           *)
(* semantics (parser arguments are closures over the call-site             *)
(* environment), so the expected outcome IS the outcome of the expansion.  *)
(***************************************************************************)
EXTENDS Fam

CONSTANTS Tier

lpar == 40
rpar == 41
comma == 44

W  == Rgx(RxPlus(Cls(<<a, b>>)))             \* /[ab]+/
A1 == Str(<<a>>)
B1 == Str(<<b>>)
Wd == Apply(Rgx(Cls(<<48, 49, 50, 51>>)), Py(<<"fn", "int">>))
Lam(kind, x) == Py(<<"lam", kind, <<"var", x>>>>)

Templates ==
    [ Wrap  |-> RuleP(<<"p">>, Left(Right(Str(<<lpar>>), Ref("p")), Str(<<rpar>>))),
      Twice |-> RuleP(<<"p">>, Seq2(Ref("p"), Ref("p"))),
      Val   |-> RuleP(<<"v">>, Seq2(A1, PyVar("v"))),
      Cnt   |-> RuleP(<<"n", "p">>, Rep(Ref("p"), Nm("n"), Nm("n"))),
      Pair  |-> ClassP(<<"p", "q">>, <<Field("left", Ref("p")), Field("right", Ref("q"))>>),
      Nest  |-> RuleP(<<"p">>, Ch2(Left(Right(Str(<<lpar>>), Call("Nest", <<Pos(Ref("p"))>>)), Str(<<rpar>>)), Ref("p"))),
      Outer |-> RuleP(<<"z">>, Call("Wrap", <<Pos(Left(Ref("z"), Str(<<comma>>)))>>)),     \* compound argument mentioning a parameter
      Opt2  |-> RuleP(<<"z">>, Call("Twice", <<Pos(Opt(Ref("z")))>>)),
      Eq    |-> RuleP(<<"q">>, Where(W, Lam("eq", "q"))),
      Shadow |-> RuleP(<<"Word">>, Left(Right(Str(<<lpar>>), Ref("Word")), Str(<<rpar>>))),   \* parameter named like a rule
      Many  |-> RuleP(<<"p">>, Star(Ref("p"))),
      Some2 |-> RuleP(<<"p">>, Rep(Ref("p"), Nb(2), NoB)),
      Either |-> RuleP(<<"p", "q">>, Ch2(Ref("p"), Ref("q"))),
      Maybe |-> RuleP(<<"p">>, Seq2(Opt(Ref("p")), Expect(Ref("p")))),
      Items |-> ClassP(<<"p">>, <<Field("items", Star(Ref("p"))), Field("tail", Opt(A1))>>),
      Invoke |-> RuleP(<<"F", "x">>, Call("F", <<Pos(Ref("x"))>>)),        \* calls its own parameter with arguments
      Close |-> RuleP(<<"q">>, Where(Plus(B1), Lam("eq", "q"))),          \* a run equal to the (list) argument
      \* one-parameter classes with a VALUE parameter: also reachable from Python as C.parse(value)(text)
      ValK  |-> ClassP(<<"v">>, <<Field("tag", A1), Field("val", PyVar("v"))>>),
      RepK  |-> ClassP(<<"n">>, <<Field("xs", Rep(A1, Nm("n"), Nm("n")))>>),
      Word  |-> Rule(W) ]

P(e) == Pos(e)

Sites == <<
  (* 1  literal *)            Call("Wrap", <<P(A1)>>),
  (* 2  compound *)           Call("Wrap", <<P(Ch2(A1, B1))>>),
  (* 3  rule name *)          Call("Wrap", <<P(Ref("Word"))>>),
  (* 4  keyword *)            Call("Wrap", <<Kw("p", A1)>>),
  (* 5  same position, different args *) Ch2(Call("Wrap", <<P(A1)>>), Call("Wrap", <<P(B1)>>)),
  (* 6  same template twice *) Seq2(Call("Twice", <<P(A1)>>), Call("Twice", <<P(B1)>>)),
  (* 7  number value *)       Call("Val", <<P(PyInt(3))>>),
  (* 8  string value via inline python *) Call("Val", <<P(Py(<<"k", <<"s", <<a, b>>>>>>))>>),
  (* 9  literal used as value *) Call("Val", <<P(A1)>>),
  (* 10 earlier result (str) *) Let("x", W, Right(Str(<<comma>>), Call("Val", <<P(Ref("x"))>>))),
  (* 11 earlier result (int) as count *) Let("k", Wd, Call("Cnt", <<P(Ref("k")), P(A1)>>)),
  (* 12 keyword mix *)        Let("k", Wd, Call("Cnt", <<Kw("p", B1), Kw("n", Ref("k"))>>)),
  (* 13 unhashable value (list) *) Let("v", Star(B1), Call("Val", <<P(Ref("v"))>>)),
  (* 14 class template *)     Call("Pair", <<P(A1), P(B1)>>),
  (* 15 class template, keyword, compound *) Call("Pair", <<Kw("q", Ch2(A1, B1)), Kw("p", W)>>),
  (* 16 recursive *)          Call("Nest", <<P(A1)>>),
  (* 17 recursive compound *) Call("Nest", <<P(Seq2(A1, Opt(B1)))>>),
  (* 18 nested: argument mentions a parameter *) Call("Outer", <<P(A1)>>),
  (* 19 nested twice *)       Call("Opt2", <<P(B1)>>),
  (* 20 argument mentions a let-bound name (inline python) *)
        Let("x", Left(W, Str(<<comma>>)), Call("Wrap", <<P(Where(W, Lam("eq", "x")))>>)),
  (* 21 argument is a call *) Call("Wrap", <<P(Call("Twice", <<P(A1)>>))>>),
  (* 22 value closure *)      Let("x", Left(W, Str(<<comma>>)), Call("Eq", <<P(Ref("x"))>>)),
  (* 23 same template, same pos, different values *)
        Let("x", Expect(W), Ch2(Left(Call("Eq", <<P(Py(<<"k", <<"s", <<a>>>>>>))>>), Str(<<comma>>)), Call("Eq", <<P(Ref("x"))>>))),
  (* 24 template instantiated under repetition with varying argument *)
        Star(Let("k", Wd, Call("Cnt", <<P(Ref("k")), P(Ch2(A1, B1))>>))),
  (* 25 compound argument with repetition *) Call("Twice", <<P(Plus(A1))>>),
  (* 26 argument using Opt of literal at same pos *) Ch2(Call("Twice", <<P(A1)>>), Call("Twice", <<P(Opt(A1))>>)),
  (* 27 case-insensitive literal argument *) Call("Wrap", <<P(StrI(<<a>>))>>),
  (* 28 regex argument *)     Call("Twice", <<P(AnyAB)>>),
  (* 29 parameter shadows a rule name *) Call("Shadow", <<P(A1)>>),
  (* 30 parameter directly under a repetition, argument fails after consuming *)
        Seq2(Call("Many", <<P(Seq2(A1, B1))>>), A1),
  (* 31 ... under a bounded repetition *) Ch2(Call("Some2", <<P(Seq2(A1, B1))>>), W),
  (* 32 parameter as a non-last alternative *) Seq2(Call("Either", <<P(Seq2(A1, B1)), P(A1)>>), Opt(A1)),
  (* 33 parameter under option and lookahead *) Seq2(Call("Maybe", <<P(Seq2(A1, B1))>>), W),
  (* 34 class template with the parameter under a repetition *) Call("Items", <<P(Seq2(A1, B1))>>),
  (* 35 data-dependent compound argument under a repetition *)
        Let("k", Wd, Seq2(Call("Many", <<P(Left(Rep(B1, Nm("k"), Nm("k")), Str(<<comma>>)))>>), Star(B1))),
  (* 36 shadowing by keyword *) Call("Shadow", <<Kw("Word", Ch2(B1, A1))>>),
  (* 37 the same template at the same position with different unhashable (list) arguments:
        a fence is closed by a run equal to the run that opened it *)
        Star(Ch2(Let("o", Plus(B1), Seq2(Plus(A1), Call("Close", <<P(Ref("o"))>>))), AnyAB)),
  (* 38 ... with the list arguments reversed / permuted *)
        Ch2(Let("o", Seq2(A1, B1), Right(Str(<<comma>>), Left(Call("Val", <<P(Ref("o"))>>), Str(<<comma>>)))),
            Let("o", Seq2(Right(A1, B1), Expect(Str(<<comma>>)) ), Right(Str(<<comma>>), Call("Val", <<P(Ref("o"))>>)))),
  (* 39 higher-order: a template name passed as argument and called with arguments *)
        Seq2(Call("Invoke", <<P(Ref("Wrap")), P(A1)>>), Opt(Call("Invoke", <<Kw("x", B1), Kw("F", Ref("Twice"))>>))),
  (* 40 a dict with unhashable (list) values as argument value *)
        Let("t", Apply(Star(Seq2(AnyAB, Star(Str(<<comma>>)))), Py(<<"fn", "dict">>)),
            Right(Str(<<lpar>>), Call("Val", <<P(Ref("t"))>>))),
  (* 41 same template, same position, equal positional and DIFFERENT keyword arguments *)
        Ch2(Call("Cnt", <<P(PyInt(1)), Kw("p", A1)>>), Call("Cnt", <<P(PyInt(1)), Kw("p", B1)>>)),
  (* 42 ... all arguments by keyword, under lookahead first *)
        Seq2(Expect(Call("Cnt", <<Kw("n", PyInt(1)), Kw("p", Ch2(A1, B1))>>)), Call("Cnt", <<Kw("n", PyInt(2)), Kw("p", Ch2(A1, B1))>>)),
  (* 43, 44 (bytes mode): byte literals as arguments, used as parsers inside the template *)
        Call("Wrap", <<P(<<"byte", a>>)>>),
        Seq2(Call("Twice", <<Kw("p", <<"byte", b>>)>>), Opt(Call("Wrap", <<P(Ch2(<<"byte", a>>, B1))>>)))
>>
BytesSites == {43, 44}        \* (positions in the sequence above: the two bytes-mode sites come last)

Grammar(i) == [rules |-> ("start" :> Rule(Sites[i])) @@ Templates, ign |-> <<>>, start |-> "start"]

Texts == TextSeqUpTo(<<a, b, lpar, rpar>>, IF Tier = "quick" THEN 4 ELSE 5)
         \o TextSeqUpTo(<<a, b>>, 6)
         \o << <<lpar, a, comma, rpar>>, <<lpar, lpar, a, b, rpar, rpar>>, <<a, b, comma, a, b>>, <<a, b, comma, a>>,
               <<a, b, comma, lpar, a, b, rpar>>, <<a, b, comma, lpar, a, rpar>>, <<50, a, a>>, <<50, a>>, <<48>>,
               <<51, b, b, b>>, <<50, b, a, 49, a, 48, 50, a, b>>, <<b, b, a>>, <<a, comma>>, <<a, comma, a>>,
               <<a, b, comma>>, <<lpar, a, a, rpar>>, <<lpar, bigA, rpar>>, <<49, a>>, <<49, b, 50, a, b>>,
               <<a, b, a, b, a>>, <<a, b, a, b, a, b>>, <<50, b, b, comma, b, b, comma, b>>, <<49, b, comma, b, b>>,
               <<a, b, a, a>>, <<a, b, a, b, a, a>>, <<b, b, b, b, a, b, b>>, <<b, b, a, a, b, b, b>>, <<b, b, b, a, b>>,
               <<b, b, b, b, a, a, b, b, b, b>>, <<a, b, comma, a>>, <<a, b, comma, a, comma>>,
               <<a, comma, comma, b, lpar, a>>, <<a, comma, b, comma, a, lpar, a>>, <<lpar, a>>, <<b, lpar, a, b>> >>

VARIABLES site, named, done
vars == <<site, named, done>>

Init == site \in 1..Len(Sites) /\ named \in {FALSE, TRUE} /\ done = FALSE

(* the curried Python entry point of a one-parameter class: the value is bound as it is, whatever its type or length *)
CurryVals == << <<"i", 3>>, <<"i", 0>>, <<"s", <<a, b>>>>, <<"s", <<a>>>>, <<"s", <<>>>>, <<"l", << <<"i", 1>> >>>>, <<"l", <<>>>>,
                <<"l", << <<"s", <<a>>>>, <<"s", <<b>>>> >>>>, <<"l", << <<"l", << <<"i", 2>> >>>> >>>>, None >>
CurryInts == << <<"i", 0>>, <<"i", 1>>, <<"i", 3>> >>
CurryTexts == << <<a>>, <<a, a, a>>, <<>>, <<b>>, <<a, a, a, a>> >>
CurryRuns(G) ==
    [k \in 1..(Len(CurryVals) * Len(CurryTexts)) |->
        RunArgs(G, "ValK", <<CurryVals[((k - 1) \div Len(CurryTexts)) + 1]>>, CurryTexts[((k - 1) % Len(CurryTexts)) + 1], 0)]
    \o [k \in 1..(Len(CurryInts) * Len(CurryTexts)) |->
        RunArgs(G, "RepK", <<CurryInts[((k - 1) \div Len(CurryTexts)) + 1]>>, CurryTexts[((k - 1) % Len(CurryTexts)) + 1], 0)]

Step == /\ ~done
        /\ done' = TRUE
        /\ UNCHANGED <<site, named>>
        /\ LET G == Grammar(site)
               cfg0 == IF named THEN [prop |-> "C06", name |-> "vg_c06"] ELSE [prop |-> "C06"]
               cfg == IF site \in BytesSites THEN cfg0 @@ [bytes |-> TRUE] ELSE cfg0 IN
           IF site = 1
           THEN PrintT(ToJson([g |-> G, cfg |-> cfg,
                               runs |-> [k \in 1..Len(Texts) |-> Run(G, "start", Texts[k], 0)] \o CurryRuns(G)]))
           ELSE EmitCase(G, cfg, <<"start">>, Texts)

Next == Step

(* ---- law: a call equals its expansion (checked for the parser-argument sites) ---- *)
RECURSIVE Subst(_, _)
\* replace references to parameters by the argument expressions (closed arguments only)
Subst(e, m) ==
    CASE e[1] = "ref" -> IF e[2] \in DOMAIN m THEN m[e[2]] ELSE e
      [] e[1] \in {"seq", "choice", "skip", "longest"} -> <<e[1], [i \in 1..Len(e[2]) |-> Subst(e[2][i], m)]>>
      [] e[1] \in {"left", "right"} -> <<e[1], Subst(e[2], m), Subst(e[3], m)>>
      [] e[1] \in {"opt", "expect", "not"} -> <<e[1], Subst(e[2], m)>>
      [] e[1] = "list" -> <<"list", Subst(e[2], m), e[3], e[4]>>
      [] OTHER -> e

ClosedSites == {1, 2, 3, 4, 25, 27, 28}       \* one template level, closed parser argument

Expansion(i) ==
    LET c == Sites[i]
        t == Templates[c[2]]
        arg == IF c[3][1][1] = "kw" THEN c[3][1][3] ELSE c[3][1][2]
    IN Subst(t.body, (t.params[1] :> arg))

LawExpansion ==
    (done /\ site \in ClosedSites) =>
    \A k \in 1..Len(Texts) :
        LET r1 == EvalEntry(Grammar(site), "start", Texts[k], 0)
            G2 == [rules |-> ("start" :> Rule(Expansion(site))) @@ Templates, ign |-> <<>>, start |-> "start"]
            r2 == EvalEntry(G2, "start", Texts[k], 0)
        IN r1.t = r2.t /\ (r1.t = "ok" => (r1.v = r2.v /\ r1.e = r2.e))
=============================================================================
