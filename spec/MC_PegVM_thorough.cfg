CONSTANTS
  Tier = "thorough"
INIT Init
NEXT Next
INVARIANT VMRefinesSem
CHECK_DEADLOCK FALSE
