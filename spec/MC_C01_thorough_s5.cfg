CONSTANTS
  Tier = "thorough"
  Shard = 5
  NShards = 7
INIT Init
NEXT Next
INVARIANT LawSane
INVARIANT LawShift
CHECK_DEADLOCK FALSE
