"""C01 - generated parsers implement PEG semantics for the core expressions."""
import random

import gen
import pegcheck


def run(chk):
    chk.rule = ('cases = (grammar, input) pairs; grammars enumerated by TLC (MC_C01: every parent/child '
                'combination of the core forms x continuation contexts) plus seeded random deeper shapes '
                'whose expected outcome comes from the same specification (Oracle.tla); non-trivial = the '
                'specification classifies the pair as well-formed (not "ill"); distinct by (description, input)')
    chk.assumptions += [
        'PegSem.tla is the documented meaning (README/docs/property text); its laws LawSane/LawShift are '
        'model-checked on every member of the family',
        'regex leaves are restricted to the Rx.tla subset; CPython re agrees with Rx on it',
        'error positions are only required to lie within [pos, farthest position examined]',
    ]
    # (A) TLC-enumerated family, text mode
    cases = pegcheck.collect(chk, 'MC_C01', 'MC_C01_' + chk.tier, timeout_s=3000)
    chk.notes['tlc_enumerated_grammars'] = len(cases)
    pegcheck.replay(chk, cases)
    # (C2) seeded random deeper shapes, text and bytes mode
    rng = random.Random(chk.seed * 7919 + 1)
    n = 1500 if chk.tier == 'quick' else 20000
    texts = gen.all_texts('ab', 4) + [gen.T(x) for x in ['A', 'Ab', 'aB', 'aaab', 'ababa', 'aabb', 'AB', 'abbab']]
    rcases = []
    for i in range(n):
        bm = (i % 4 == 3)
        cg = gen.CoreGen(rng, bytes_mode=bm)
        g = cg.grammar(3 if i % 3 else 4)
        rcases.append({'id': i, 'g': g, 'cfg': {'bytes': bm, 'prop': 'C01'},
                       'runs': [['start', t, 0] for t in texts]})
    pegcheck.with_oracle(chk, rcases)
    chk.notes['random_grammars'] = len(rcases)
    pegcheck.replay(chk, rcases)
