"""Replay engine: cases (+ expectations from the specification) -> real runs ->
verdicts.  Mechanism only."""
import json
import multiprocessing as mp
import os
import random
import sys
import time

HERE = os.path.dirname(os.path.abspath(__file__))
sys.path.insert(0, HERE)

import realrun  # noqa: E402
import render   # noqa: E402


# ---------------------------------------------------------------------------
# worker side
# ---------------------------------------------------------------------------
def describe(case):
    """Description text for a case, according to its configuration."""
    cfg = case.get('cfg') or {}
    if 'desc' in case:
        return case['desc']
    st = render.DEFAULT
    if cfg.get('style'):
        s = cfg['style']
        st = render.Style(variant=s.get('variant', 0), rng=random.Random(s.get('seed', 0)),
                          definer=s.get('definer', '='), sep=s.get('sep', '\n'),
                          comments=s.get('comments', False), ignore_kw=s.get('ignore_kw', 'ignore'),
                          bare_start=s.get('bare_start', False), parens=s.get('parens', False),
                          break_ops=s.get('break_ops', False))
    render.LAM_DEFAULTS = bool(cfg.get('lam_defaults'))
    render.SEP_POSITIONAL = bool(cfg.get('sep_positional'))
    try:
        return render.grammar(case['g'], st, bm=cfg.get('bytes', False), name=cfg.get('name'),
                              ign_first=cfg.get('ign_first', False), ign_names=cfg.get('ign_names'),
                              order=cfg.get('order'))
    finally:
        render.LAM_DEFAULTS = False
        render.SEP_POSITIONAL = False


def with_cfg_variant(cases, key):
    """The cases again with cfg[key] = True - only those whose description changes."""
    out = []
    for c in cases:
        if 'g' not in c:
            continue
        c2 = dict(c)
        c2['cfg'] = dict(c.get('cfg') or {}, **{key: True})
        if describe(c2) != describe(c):
            out.append(c2)
    return out


def with_lambda_defaults(cases):
    """The cases again, spelled with `lambda v_, x=x: ...` closures - only those whose description changes."""
    out = []
    for c in cases:
        if 'g' not in c:
            continue
        c2 = dict(c)
        c2['cfg'] = dict(c.get('cfg') or {}, lam_defaults=True)
        if describe(c2) != describe(c):
            out.append(c2)
    return out


def unproject(v):
    """A spec value as a Python value (arguments of curried entry points)."""
    k = v[0]
    if k == 'i':
        return v[1]
    if k == 's':
        return ''.join(chr(c) for c in v[1])
    if k == 'none':
        return None
    if k == 'l':
        return [unproject(x) for x in v[1]]
    raise ValueError(v)


def observe_case(case):
    """Build the grammar of `case` with the real code and observe every run."""
    cfg = case.get('cfg') or {}
    bm = cfg.get('bytes', False)
    try:
        desc = describe(case)
    except Exception as e:   # rendering problem = machinery failure, reported as such
        return {'id': case['id'], 'desc': None, 'build': ['render-error', repr(e)], 'obs': []}
    realrun.OBJPROTO = bool(cfg.get('objproto'))
    b = realrun.build(desc, include_source=cfg.get('include_source', False),
                      per_case_timeout=20.0 * cfg.get('timeout_scale', 1))
    if b[0] != 'ok':
        return {'id': case['id'], 'desc': desc, 'build': list(b), 'obs': []}
    mod = b[1]
    obs = []
    start = case['g'].get('start')
    ntimeouts = 0
    for run in case['runs']:
        entry, text, pos = run[0], run[1], run[2]
        full = run[3] if len(run) > 3 else True
        if ntimeouts >= 3:
            # this module hangs again and again: do not spend minutes on the remaining runs
            obs.append(['timeout', 'not run: three runs of this grammar already timed out'])
            continue
        try:
            if isinstance(entry, list):
                # curried entry point of a parameterised class: C.parse(values...)(text, pos, fullparse)
                fn = getattr(mod, entry[0]).parse(*[unproject(v) for v in entry[1]])
            elif (entry == start or entry == cfg.get('module_entry')) and not cfg.get('via_rule', False):
                fn = mod.parse
            else:
                fn = getattr(mod, entry).parse
        except Exception as e:
            obs.append(['exc', type(e).__name__, 'no entry point: ' + str(e)[:100]])
            continue
        obs.append(realrun.call_parse(mod, fn, realrun.to_text(text, bm), pos, full,
                                      spans=cfg.get('spans', False),
                                      per_case_timeout=5.0 * cfg.get('timeout_scale', 1)))
        if obs[-1][0] == 'timeout':
            ntimeouts += 1
    name = cfg.get('name')
    if name:
        sys.modules.pop(name, None)
    return {'id': case['id'], 'desc': desc, 'build': ['ok'], 'obs': obs}


# Shared between the parent and the (forked) workers: how many cases of the current run_real call timed out.  Once a
# call with a budget has lost that many cases to timeouts, the remaining cases are handed back unobserved ("skipped"):
# code that hangs on most inputs must yield a verdict (the confirmed timeouts) in minutes, not exhaust the time limit
# of the check.  On code that answers, nothing is ever skipped.
TIMEOUT_COUNT = mp.Value('i', 0)
SKIPPED = 'skipped-after-timeouts'


def _work(batch):
    fn_name, cases = batch[0], batch[1]
    budget = batch[2] if len(batch) > 2 else None
    fn = WORKERS[fn_name]
    out = []
    if realrun.INIT_ERROR:
        return [{'id': c.get('id'), 'desc': None, 'build': ['harness-error', realrun.INIT_ERROR], 'obs': [],
                 'events': []} for c in cases]
    for c in cases:
        if budget is not None and TIMEOUT_COUNT.value >= budget:
            out.append({'id': c.get('id'), 'desc': None, 'build': [SKIPPED], 'obs': [], 'events': []})
            continue
        try:
            out.append(fn(c))
            if budget is not None and _has_timeout(out[-1]):
                with TIMEOUT_COUNT.get_lock():
                    TIMEOUT_COUNT.value += 1
        except BaseException as e:  # noqa
            if isinstance(e, (KeyboardInterrupt, SystemExit)):
                raise
            out.append({'id': c.get('id'), 'desc': None, 'build': ['harness-error', repr(e)[:300]], 'obs': []})
    return out


WORKERS = {'observe_case': observe_case}


def register(name, fn):
    WORKERS[name] = fn


_POOL = None
_POOL_HOOKS = None


def pool(hooks=False, procs=None):
    global _POOL, _POOL_HOOKS
    if _POOL is not None and _POOL_HOOKS == hooks:
        return _POOL
    if _POOL is not None:
        _POOL.terminate()
    ctx = mp.get_context('fork')
    _POOL = ctx.Pool(procs or min(16, os.cpu_count() or 4), initializer=realrun.init_worker,
                     initargs=(hooks,), maxtasksperchild=None)
    _POOL_HOOKS = hooks
    return _POOL


def close_pool():
    global _POOL
    if _POOL is not None:
        _POOL.terminate()
        _POOL.join()
        _POOL = None


def _has_timeout(o):
    return o['build'][0] == 'timeout' or any(isinstance(x, (list, tuple)) and x and x[0] == 'timeout' for x in o['obs'])


def run_real(cases, fn='observe_case', hooks=False, batch=25, confirm_timeouts=True, timeout_budget=None,
             confirm_limit=24):
    """Observe `cases` in the worker pool; returns {id: observation}.
    A case that timed out is observed a second time, alone and with a six times
    longer limit, so that a stall of the machine is never reported as a hang.
    With a timeout_budget, cases are skipped (build == [SKIPPED]) once that many
    cases have timed out, and at most confirm_limit timed-out cases are observed
    again (the others are skipped, too: an unconfirmed timeout is never reported)."""
    p = pool(hooks)
    TIMEOUT_COUNT.value = 0
    batches = [(fn, cases[i:i + batch], timeout_budget) for i in range(0, len(cases), batch)]
    out = {}
    for res in p.imap_unordered(_work, batches):
        for o in res:
            out[o['id']] = o
    if confirm_timeouts:
        again = []
        for c in cases:
            o = out.get(c['id'])
            if o is not None and _has_timeout(o):
                c2 = dict(c)
                cfg = dict(c.get('cfg') or {})
                cfg['timeout_scale'] = 6 * cfg.get('timeout_scale', 1)
                c2['cfg'] = cfg
                again.append(c2)
        if timeout_budget is not None and len(again) > confirm_limit:
            for c in again[confirm_limit:]:
                out[c['id']] = {'id': c['id'], 'desc': None, 'build': [SKIPPED], 'obs': [], 'events': []}
            again = again[:confirm_limit]
        if again:
            for res in p.imap_unordered(_work, [(fn, [c]) for c in again]):
                for o in res:
                    out[o['id']] = o
    return out


# ---------------------------------------------------------------------------
# judging one run:  exp = [t, v, end, far] from the specification
# ---------------------------------------------------------------------------
def judge_run(exp, obs, pos, compare_end=True, spans=False):
    """None if the observation agrees with the expectation on the observables
    the properties fix, else a short reason."""
    t = exp[0]
    if t == 'ill':
        return None
    if obs[0] == 'timeout':
        return 'timeout (no answer within the per-case limit)'
    if obs[0] == 'exc':
        return 'unexpected exception %s: %s' % (obs[1], obs[2])
    if t == 'ok':
        if obs[0] != 'ok':
            return 'expected a match ending at %d, observed ParseError at %s' % (exp[2], obs[1])
        ev = exp[1] if spans else realrun.strip_spans(exp[1])
        if obs[1] != ev:
            return 'value differs'
        if compare_end and obs[2] >= 0 and obs[2] != exp[2]:
            return 'end position differs: expected %d, observed %d' % (exp[2], obs[2])
        return None
    if t == 'fail':
        if obs[0] != 'fail':
            return 'expected failure, observed a match ending at %s' % (obs[2],)
        idx = obs[1]
        lo = min(pos, exp[3])
        if not (lo <= idx <= max(exp[3], pos)):
            return 'error index %d outside [%d, %d]' % (idx, pos, exp[3])
        return None
    return 'unknown expectation ' + repr(t)
