CONSTANTS
  Tier = "thorough"
INIT Init
NEXT Next
INVARIANT FrameLaw
CHECK_DEADLOCK FALSE
