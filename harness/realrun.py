"""Run cases against the real sourcer code imported from /repo's working tree.

Everything here is mechanism: build, call, project, time out.  No expected
values are computed in this module.
"""
import os
import resource
import signal
import sys
import traceback

REPO = os.environ.get('VERIF_REPO', '/repo')


class CaseTimeout(Exception):
    pass


def _alarm(signum, frame):
    raise CaseTimeout()


INIT_ERROR = None


def init_worker(hooks=False):
    """Called once per worker process.  Never raises (a raising pool initializer
    makes multiprocessing respawn workers forever); a failure is kept in
    INIT_ERROR and reported by the first task."""
    global INIT_ERROR
    try:
        _init_worker(hooks)
    except BaseException as e:  # noqa
        INIT_ERROR = 'worker initialisation failed: %r' % (e,)


def _init_worker(hooks):
    sys.dont_write_bytecode = True
    if REPO not in sys.path:
        sys.path.insert(0, REPO)
    here = os.path.dirname(os.path.abspath(__file__))
    if here not in sys.path:
        sys.path.insert(0, here)
    if hooks:
        os.environ['SOURCER_VERIF'] = '1'
    else:
        os.environ.pop('SOURCER_VERIF', None)
    signal.signal(signal.SIGALRM, _alarm)
    try:
        lim = 6 * 1024 ** 3
        resource.setrlimit(resource.RLIMIT_AS, (lim, lim))
    except Exception:
        pass
    sys.setrecursionlimit(1000)
    import faulthandler
    faulthandler.enable()
    import gc
    gc.freeze()     # inherited objects are never traversed (no copy-on-write storms, no long pauses)
    import sourcer  # noqa: F401  (import now so that failures show up early)
    assert os.path.realpath(sourcer.__file__).startswith(os.path.realpath(REPO)), sourcer.__file__


class timeout:
    def __init__(self, seconds):
        self.seconds = seconds

    def __enter__(self):
        signal.setitimer(signal.ITIMER_REAL, self.seconds)

    def __exit__(self, *a):
        signal.setitimer(signal.ITIMER_REAL, 0)
        return False


# ---------------------------------------------------------------------------
# projection of real values into the spec's value model
# ---------------------------------------------------------------------------
def project(v, spans=False, depth=0):
    if depth > 700:
        return ['deep']
    if v is None:
        return ['none']
    if v is True:
        return ['t']
    if v is False:
        return ['f']
    if isinstance(v, str):
        return ['s', [ord(c) for c in v]]
    if isinstance(v, (bytes, bytearray)):
        return ['s', list(v)]
    if isinstance(v, int):
        return ['i', int(v)]
    if isinstance(v, list):
        return ['l', [project(x, spans, depth + 1) for x in v]]
    if isinstance(v, tuple) and not hasattr(v, '_fields'):
        return ['tu', [project(x, spans, depth + 1) for x in v]]
    cls = type(v)
    name = cls.__name__
    if hasattr(v, '_fields') and hasattr(v, '_metadata'):
        if name == 'Infix' and cls._fields == ('left', 'operator', 'right'):
            return ['I', project(v.left, spans, depth + 1), project(v.operator, spans, depth + 1),
                    project(v.right, spans, depth + 1)]
        if name == 'Prefix' and cls._fields == ('operator', 'right'):
            return ['P', project(v.operator, spans, depth + 1), project(v.right, spans, depth + 1)]
        if name == 'Postfix' and cls._fields == ('left', 'operator'):
            return ['Q', project(v.left, spans, depth + 1), project(v.operator, spans, depth + 1)]
        fields = [[f, project(getattr(v, f), spans, depth + 1)] for f in cls._fields]
        out = ['o', name, fields]
        if spans:
            pi = v._metadata.position_info
            if pi is None:
                out.append([])
            else:
                try:
                    out.append([[pi.start.index, pi.start.line, pi.start.column],
                                [pi.end.index, pi.end.line, pi.end.column]])
                except AttributeError:
                    out.append(['raw', list(pi)])
        return out
    if isinstance(v, dict):
        return ['d', [[project(k, spans, depth + 1), project(x, spans, depth + 1)] for k, x in v.items()]]
    if isinstance(v, float):
        return ['fl', repr(v)]
    if callable(v):
        return ['fv', getattr(v, '__name__', '?')]
    return ['other', repr(v)[:80]]


def strip_obs_spans(v):
    """Remove the span element from the objects of an OBSERVED (projected with spans=True) value."""
    if isinstance(v, list):
        if len(v) == 4 and v[0] == 'o':
            return ['o', v[1], [[f, strip_obs_spans(x)] for f, x in v[2]]]
        return [strip_obs_spans(x) for x in v]
    return v


def strip_spans(v):
    """Remove span information from a spec-side value (4th element of objects)."""
    if isinstance(v, list) and v:
        if v[0] == 'o':
            return ['o', v[1], [[f, strip_spans(x)] for f, x in v[2]]]
        if v[0] in ('l', 'tu'):
            return [v[0], [strip_spans(x) for x in v[1]]]
        if v[0] in ('I', 'P', 'Q'):
            return [v[0]] + [strip_spans(x) for x in v[1:]]
        if v[0] == 'd':
            return ['d', [[strip_spans(k), strip_spans(x)] for k, x in v[1]]]
    return v


def to_text(cps, bytes_mode=False):
    if bytes_mode:
        return bytes(cps)
    return ''.join(chr(c) for c in cps)


def build(desc, include_source=False, per_case_timeout=20.0):
    """Grammar(desc) -> ('ok', module) | ('exc', type, msg) | ('timeout',)"""
    from sourcer import Grammar
    try:
        with timeout(per_case_timeout):
            return ('ok', Grammar(desc, include_source=include_source))
    except CaseTimeout:
        return ('timeout',)
    except MemoryError:
        return ('exc', 'MemoryError', '')
    except RecursionError as e:
        return ('exc', 'RecursionError', str(e)[:200])
    except BaseException as e:  # noqa
        if isinstance(e, (KeyboardInterrupt, SystemExit)):
            raise
        return ('exc', type(e).__name__, (str(e) or '')[:300])


OBJPROTO = False      # set per case (cfg objproto): also exercise the value protocol of every instance in a result


def _objproto(mod, v):
    """Every class instance of a result can be taken apart and rebuilt through its documented value protocol
    (_asdict, _replace with every field by keyword, transform with the identity) - whatever its fields are called."""
    for n in mod.visit(v):
        d = n._asdict()
        if list(d) != list(type(n)._fields):
            raise AssertionError('_asdict() keys %r differ from the fields %r' % (list(d), list(type(n)._fields)))
        if d and not (n._replace(**d) == n):
            raise AssertionError('_replace(**_asdict()) differs from the object')
    if not (mod.transform(v, lambda x: x) == v):
        raise AssertionError('transform with the identity differs from the value')


def call_parse(mod, fn, text, pos, full, spans=False, per_case_timeout=5.0):
    """Observe one parse call.
    -> ['ok', value, end] | ['fail', index, line, col] | ['exc', type, msg] | ['timeout']
    With full=True the end position comes from PartialParseError.last_position
    (or len(text) on a plain return)."""
    try:
        with timeout(per_case_timeout):
            try:
                v = fn(text, pos, full)
                if OBJPROTO:
                    _objproto(mod, v)
                return ['ok', project(v, spans), len(text) if full else -1, 'ret']
            except mod.PartialParseError as e:
                lp = e.last_position
                return ['ok', project(e.partial_result, spans), lp.index, 'partial',
                        [lp.index, lp.line, lp.column]]
            except mod.ParseError as e:
                p = e.position
                return ['fail', p.index, p.line, p.column]
    except CaseTimeout:
        return ['timeout']
    except MemoryError:
        return ['exc', 'MemoryError', '']
    except RecursionError as e:
        return ['exc', 'RecursionError', str(e)[:200]]
    except BaseException as e:  # noqa
        if isinstance(e, (KeyboardInterrupt, SystemExit)):
            raise
        tb = traceback.extract_tb(e.__traceback__)
        where = '%s:%s' % (os.path.basename(tb[-1].filename), tb[-1].lineno) if tb else ''
        return ['exc', type(e).__name__, ((str(e) or '')[:200] + ' @' + where)]


def entry_fn(mod, g, entry):
    """The public callable for an entry point: module-level parse for the start
    rule (or for the first rule when there is no start rule), R.parse / C.parse
    otherwise."""
    if entry == '<module>':
        return mod.parse
    return getattr(mod, entry).parse
