"""C15 - visit and traverse enumerate the whole tree, once, in order."""
import engine
import objcheck
import tlc
from common import MachineryFailure


def walk_worker(case):
    mod = objcheck.module()
    out = []
    for t in case['trees']:
        b = objcheck.Builder(mod)
        root = b.build(t, [])
        try:
            vis = [b.ident_of(o) for o in mod.visit(root)]
        except BaseException as e:  # noqa
            vis = ['exc', type(e).__name__, str(e)[:100]]
        try:
            evs = []
            for ev in mod.traverse(root):
                parent = ['root'] if ev.parent is None else b.ident_of(ev.parent)
                field = '' if ev.field is None else ev.field
                evs.append([parent, field, b.ident_of(ev.child), bool(ev.is_finished)])
        except BaseException as e:  # noqa
            evs = ['exc', type(e).__name__, str(e)[:100]]
        out.append([vis, evs])
    return {'id': case['id'], 'desc': None, 'build': ['ok'], 'obs': out}


def deep_worker(case):
    """Chains far deeper than the recursion limit: counts only."""
    mod = objcheck.module()
    n = case['n']
    o = mod.A(None)
    for i in range(n):
        o = mod.A(o) if i % 2 else [o]
    try:
        nv = sum(1 for _ in mod.visit(o))
        ne = sum(1 for _ in mod.traverse(o))
        res = ['ok', nv, ne]
    except RecursionError:
        res = ['exc', 'RecursionError']
    except BaseException as e:  # noqa
        res = ['exc', type(e).__name__, str(e)[:100]]
    # take the chain apart iteratively (a recursive dealloc of 10^5 levels is CPython's business, not sourcer's)
    while True:
        if isinstance(o, list) and o:
            nxt = o[0]
            o.clear()
        elif hasattr(o, 'x'):
            nxt = o.x
            o.x = None
        else:
            break
        o = nxt
    return {'id': case['id'], 'desc': None, 'build': ['ok'], 'obs': res}


engine.register('walk_worker', walk_worker)
engine.register('walk_deep_worker', deep_worker)


def run(chk):
    chk.rule = ('cases = result trees; TLC (MC_C15) enumerates every tree of depth <= 2 (thorough: 3) over objects of arity '
                '0..2, lists, tuples, dicts, leaves of every CPython sharing kind (None, cached int, interned string, '
                'equal-but-distinct strings / big ints) and three shared sub-structures; in every state it checks the '
                'explicit-stack machines (Walk.tla) against the declarative Preorder/Events and emits the expected '
                'sequences; the harness builds the real objects and compares list(visit(t)) by identity and '
                'list(traverse(t)) event by event (parent identity, field, child identity, is_finished); plus chains of '
                '10^4-10^5 nodes; non-trivial = tree with a repeated identical leaf or a shared structure; distinct by tree')
    chk.assumptions += ['a shared object or container met again is entered and finished again but not expanded again '
                        '(Objs!Events); leaves are identified by their sharing kind']
    trees = []
    r = tlc.run('MC_C15', 'MC_C15_walk_' + chk.tier, on_json=trees.append, timeout_s=3000)
    chk.add_tlc(r, 'MC_C15')
    if not r.ok or not trees:
        raise MachineryFailure('MC_C15 did not complete')
    cases = [{'id': i, 'trees': [x['t'] for x in trees[i:i + 40]]} for i in range(0, len(trees), 40)]
    recs = engine.run_real(cases, fn='walk_worker', batch=1)
    for c in cases:
        rec = recs[c['id']]
        if rec['build'][0] != 'ok':
            raise MachineryFailure('walk worker: %r' % (rec['build'],))
        for x, (vis, evs) in zip(trees[c['id']:c['id'] + 40], rec['obs']):
            chk.traces += 1
            s = str(x['t'])
            chk.count(x['t'], 'shared' in s or s.count("'none'") > 1 or s.count("'int1'") > 1)
            if len(chk.samples) < 3 and 'shared' in s:
                chk.sample({'tree': x['t'], 'visit': x['visit'], 'events': x['events'][:8], 'observed_events': evs[:8]})
            if vis != x['visit']:
                chk.violation('visit order differs | tree %s | expected %s | observed %s' % (x['t'], x['visit'], vis),
                              {'tree': x['t'], 'expected': x['visit'], 'observed': vis})
            if evs != x['events']:
                k = next((i for i, (a, b) in enumerate(zip(evs, x['events'])) if a != b), min(len(evs), len(x['events'])))
                chk.violation('traverse events differ at event %d | tree %s | expected %s | observed %s'
                              % (k, x['t'], x['events'][k:k + 2], evs[k:k + 2] if isinstance(evs, list) else evs),
                              {'tree': x['t'], 'expected': x['events'], 'observed': evs})
    dcases = [{'id': i, 'n': n} for i, n in enumerate([10 ** 4] if chk.tier == 'quick' else [10 ** 4, 10 ** 5])]
    recs = engine.run_real(dcases, fn='walk_deep_worker', batch=1)
    for c in dcases:
        n = c['n']
        nobj = 1 + n // 2
        want = ['ok', nobj, 2 * (n + 1 + 1)]
        got = recs[c['id']]['obs']
        chk.count(['deep', n], True)
        if got != want:
            chk.violation('chain of %d nested nodes: expected %s, observed %s' % (n, want, got), {'n': n, 'observed': got})
