CONSTANTS
  NR = 4
  NC = 1
  MaxReq = 3
INIT Init
NEXT Next
INVARIANT InvNothingLost
INVARIANT OutcomeIndependent
INVARIANT Emitted
CHECK_DEADLOCK FALSE
