------------------------------ MODULE MC_PegVM ------------------------------
(* B: the mechanism layer (register protocol with static flags) refines the *)
(* meaning layer on every member of the C01 family and on the bounded       *)
(* repetitions / separated lists of C03, for every text in the bound.       *)
EXTENDS Shapes01, PegVM

comma == 44
SepOpts == {<<d, t, e2, r>> : d \in BOOLEAN, t \in BOOLEAN, e2 \in BOOLEAN, r \in BOOLEAN}

VARIABLES sh, c, ex, done
vars == <<sh, c, ex, done>>

Elems == {Str(<<a>>), Seq2(Str(<<a>>), Str(<<b>>)), Ch2(Str(<<a>>), Str(<<a, b>>)), Ref("R1")}

Init == /\ done = FALSE
        /\ \/ /\ sh \in Recipes(Leaves, SmallLeaves) /\ c \in 0..6 /\ ex = <<>>
              /\ (Tier = "quick" => sh[1] <= 2)
              /\ Renderable(Ctx(c, Build(sh)))
           \/ /\ sh = <<>> /\ c \in 0..6
              /\ \E x \in Elems, lo \in -1..3, hi \in -1..3 :
                    (hi < 0 \/ lo <= hi) /\ ex = Rep(x, IF lo < 0 THEN NoB ELSE Nb(lo), IF hi < 0 THEN NoB ELSE Nb(hi))
           \/ /\ sh = <<>> /\ c \in 0..6
              /\ \E x \in Elems, s \in {Str(<<b>>), Seq2(Str(<<b>>), Str(<<b>>))}, o \in SepOpts :
                    ~(o[4] /\ ~o[2]) /\ ex = Sep(x, s, o)

e == Ctx(c, IF sh = <<>> THEN ex ELSE Build(sh))

\* the flags of the depth-1 members are emitted so that the harness can compare them with the flags the real
\* expression objects report (informational: a different flag is not a property violation by itself)
Step == /\ ~done /\ done' = TRUE /\ UNCHANGED <<sh, c, ex>>
        /\ IF c = 0 /\ (sh = <<>> \/ sh[1] <= 2)
           THEN PrintT(ToJson([e |-> e, as |-> AS(Grammar(e), e), cps |-> CPS(Grammar(e), e)]))
           ELSE TRUE
Next == Step

G == Grammar(e)

VMRefinesSem == done => \A k \in 1..Len(Texts) : Refines(G, e, Texts[k])
=============================================================================
