------------------------------- MODULE MC_C20 -------------------------------
(***************************************************************************)
(* C20 - user-chosen names cannot collide with generated code.             *)
(* A base grammar uses every naming role (rule, class, class field, let    *)
(* field, rule template, class template, parameter, let variable).  A      *)
(* renaming rho maps identifiers of the grammar to names from a pool (read *)
(* from the file named by POOL: look-alikes of generated temporaries,      *)
(* builtins the runtime calls, the built-in expression constructors, and   *)
(* every identifier that occurs in the generated source of the un-renamed  *)
(* grammar).  TLC applies rho to the abstract grammar, evaluates PegSem on *)
(* the renamed grammar and checks the law Eval(rho(g)) = rho(Eval(g)).     *)
(***************************************************************************)
EXTENDS Fam, IOUtils

Pool == ndJsonDeserialize(IOEnv.POOL)            \* sequence of [name |-> "..."]

colon == 58
sp == 32
WordRx == Rgx(RxPlus(Cls(<<a, b>>)))

Base ==
    [ start |-> Rule(Star(Left(Ref("Item"), Opt(Str(<<44>>))))),
      Item  |-> Rule(Ch3(Ref("Pair"), Call("Box", <<Kw("q", Right(Str(<<33>>), Ref("Word")))>>), Ref("Word"))),
      Word  |-> Rule(WordRx),
      Pair  |-> Class(<< Field("key", Ref("Word")), PassM(Str(<<colon>>)), LetF("gap", Opt(Str(<<sp>>))),
                         \* (the argument is compound and mentions the earlier field in inline Python: the generator moves
                         \* it into a helper function, which has to be given the field's value)
                         Field("val", Call("Wrap", <<Pos(Where(Ref("Word"), Py(<<"lam", "ne", <<"var", "key">>>>)))>>)),
                         Req(<<"eq", <<"len", <<"var", "key">>>>, <<"len", <<"var", "key">>>>>>) >>),
      \* (likewise for the let variable: it is mentioned inside a compound argument)
      Wrap  |-> RuleP(<<"p">>, Let("tmp", Ref("p"), Call("Hold", <<Pos(Seq2(Py(<<"lst", << <<"var", "tmp">>, <<"var", "tmp">> >> >>),
                                                                          Rep(Str(<<42>>), NoB, Nb(2))))>>))),
      Hold  |-> RuleP(<<"hh">>, Ref("hh")),
      \* a class with a VALUE parameter: its curried entry point  Cnt.parse(2)(text)  is used from outside
      Cnt   |-> ClassP(<<"m">>, <<Field("xs", Rep(Str(<<42>>), Nm("m"), Nm("m"))), Field("more", Opt(Ref("Word")))>>),
      \* defined after the classes: inline Python with a lambda, inside a compound argument (moved into a helper function)
      Zlast |-> Rule(Call("Wrap", <<Pos(Where(Ref("Word"), Py(<<"lam", "ne", <<"k", <<"s", <<a>>>>>>>>)))>>)),
      \* an operator table inside a parameterised rule (its generated code has many temporaries)
      Tab   |-> RuleP(<<"t">>, <<"optable", Ref("t"), << <<"postfix", <<Str(<<33>>)>>>>, <<"left", <<Str(<<43>>)>>>> >> >>),
      Tuse  |-> Rule(Call("Tab", <<Pos(Ref("Word"))>>)),
      \* uses of the templates from rules of their own (the harness also moves these three into a derived module)
      ZW    |-> Rule(Call("Wrap", <<Pos(Ref("Word"))>>)),
      ZB    |-> Rule(Call("Box", <<Kw("q", Ref("Word"))>>)),
      ZC    |-> Rule(Call("Cnt", <<Pos(PyInt(2))>>)),
      \* a parameter that is CALLED with arguments (a template passed to a template)
      Inv   |-> RuleP(<<"h", "z">>, Call("h", <<Pos(Ref("z"))>>)),
      ZI    |-> Rule(Call("Inv", <<Pos(Ref("Wrap")), Pos(Ref("Word"))>>)),
      Box   |-> ClassP(<<"q">>, <<Field("it", Ref("q")), LetF("n", Py(<<"k", <<"i", 1>>>>)),
                                  Field("stars", Rep(Str(<<42>>), Nm("n"), Nm("n")))>>) ]

(* the identifiers that may be renamed, with their role *)
Roles == << <<"Item", "rule">>, <<"Word", "rule">>, <<"Pair", "class">>, <<"key", "field">>, <<"val", "field">>,
            <<"gap", "let field">>, <<"Wrap", "template">>, <<"p", "parameter">>, <<"tmp", "let variable">>,
            <<"Box", "class template">>, <<"q", "parameter">>, <<"it", "field">>, <<"n", "let field">>,
            <<"stars", "field">>, <<"m", "parameter">>, <<"xs", "field">>, <<"Cnt", "class template">>,
            <<"t", "parameter">>, <<"Tab", "template">>, <<"h", "parameter">>, <<"z", "parameter">>, <<"Inv", "template">>,
            <<"Junk", "ignored rule">>, <<"Til", "ignored rule">> >>

(* names taken from the generated source (dynamic pool) are tried in four representative roles only *)
DynRoles == {"Word", "key", "p", "tmp", "t", "h"}

R(rho, x) == IF x \in DOMAIN rho THEN rho[x] ELSE x

RECURSIVE RenP(_, _)
RenP(P, rho) ==
    CASE P[1] = "var" -> <<"var", R(rho, P[2])>>
      [] P[1] = "lst" -> <<"lst", [i \in 1..Len(P[2]) |-> RenP(P[2][i], rho)]>>
      [] P[1] = "lam" -> <<"lam", P[2], RenP(P[3], rho)>>
      [] P[1] = "eq"  -> <<"eq", RenP(P[2], rho), RenP(P[3], rho)>>
      [] P[1] = "len" -> <<"len", RenP(P[2], rho)>>
      [] P[1] \in {"sub", "or"} -> <<P[1], RenP(P[2], rho), P[3]>>
      [] OTHER -> P

RenB(bd, rho) == IF bd[1] = "name" THEN <<"name", R(rho, bd[2])>> ELSE IF bd[1] = "py" THEN <<"py", RenP(bd[2], rho)>> ELSE bd

RECURSIVE RenE(_, _)
RenE(e, rho) ==
    LET X(x) == RenE(x, rho)
        XS(xs) == [i \in 1..Len(xs) |-> X(xs[i])]
    IN CASE e[1] = "ref" -> <<"ref", R(rho, e[2])>>
         [] e[1] \in {"seq", "choice", "skip", "longest"} -> <<e[1], XS(e[2])>>
         [] e[1] \in {"left", "right", "where", "apply", "applyl"} -> <<e[1], X(e[2]), X(e[3])>>
         [] e[1] \in {"opt", "expect", "not"} -> <<e[1], X(e[2])>>
         [] e[1] = "list" -> <<"list", X(e[2]), RenB(e[3], rho), RenB(e[4], rho)>>
         [] e[1] = "sep" -> <<"sep", X(e[2]), X(e[3]), e[4]>>
         [] e[1] = "let" -> <<"let", R(rho, e[2]), X(e[3]), X(e[4])>>
         [] e[1] = "py" -> <<"py", RenP(e[2], rho)>>
         [] e[1] = "optable" -> <<"optable", X(e[2]), [i \in 1..Len(e[3]) |-> <<e[3][i][1], XS(e[3][i][2])>>]>>
         [] e[1] = "call" -> <<"call", R(rho, e[2]),
                               [i \in 1..Len(e[3]) |-> IF e[3][i][1] = "kw" THEN <<"kw", R(rho, e[3][i][2]), X(e[3][i][3])>>
                                                       ELSE <<"pos", X(e[3][i][2])>>]>>
         [] OTHER -> e

RenRule(r, rho) ==
    LET ps == [i \in 1..Len(r.params) |-> R(rho, r.params[i])] IN
    IF r.kind = "rule" THEN [kind |-> "rule", params |-> ps, body |-> RenE(r.body, rho)]
    ELSE [kind |-> "class", params |-> ps,
          members |-> [i \in 1..Len(r.members) |->
                         LET m == r.members[i] IN
                         IF m[1] = "req" THEN <<"req", "", RenP(m[3], rho)>>
                         ELSE <<m[1], R(rho, m[2]), RenE(m[3], rho)>>]]

Rename(rules, rho) ==
    [nm \in {R(rho, x) : x \in DOMAIN rules} |->
        RenRule(rules[CHOOSE x \in DOMAIN rules : R(rho, x) = nm], rho)]

RECURSIVE RenV(_, _)
RenV(v, rho) ==
    CASE v[1] = "o" -> <<"o", R(rho, v[2]), [i \in 1..Len(v[3]) |-> <<R(rho, v[3][i][1]), RenV(v[3][i][2], rho)>>], v[4]>>
      [] v[1] \in {"l", "tu"} -> <<v[1], [i \in 1..Len(v[2]) |-> RenV(v[2][i], rho)]>>
      [] OTHER -> v

Texts == << <<a, b>>, <<a, colon, b>>, <<a, b, colon, sp, b, a, 42, 42, 44, b>>, <<33, a, b, 42, 44, a, colon, b, 42>>,
            <<a, colon, sp, b, 42, 42, 42>>, <<33, a, 42, 42>>, <<a, 44, b, colon, a, 44, 33, b, 42>>, <<>>, <<colon>>,
            <<a, colon>>, <<33>>, <<a, b, 44, 44>>, <<b, colon, a, 42, 44, 33, a, 42, 44, b, a>>,
            <<a, 33, 43, b>>, <<a, 43, b, 33, 33>>, <<a, 43>>, <<42, 42, a>>, <<a, 42>>,
            <<126, a, b, 44, b>>, <<b, 126, a, a, b, 44, 126, b>>, <<a, colon, 126, b, 126, a>> >>

Texts2 == << <<a, b>>, <<a, b, 42, 42>>, <<a, 33, 43, b>>, <<a, 43, b, 33, 33>>, <<42, 42, a>>, <<a, 42>>, <<b, 42, 42>>, <<>> >>

VARIABLES ri, pi, done
vars == <<ri, pi, done>>

Init == /\ ri \in 1..Len(Roles) /\ pi \in 1..Len(Pool) /\ done = FALSE
        /\ (Pool[pi].dyn => Roles[ri][1] \in DynRoles)

Rho == (Roles[ri][1] :> Pool[pi].name)
Clash == \/ Pool[pi].name \in (DOMAIN Base \cup {"Junk", "Til"}) \/ \E k \in 1..Len(Roles) : Roles[k][1] = Pool[pi].name   \* not injective
         \* v_ is the parameter of the lambdas the renderer writes; the field `key` is mentioned inside one of them, so
         \* this renaming would be captured by the lambda's own parameter - in the description, not in generated code
         \/ (Pool[pi].name = "v_" /\ Roles[ri][1] = "key")

\* two NAMED ignore rules whose matches overlap ("~a" is one piece of junk, not a tilde and a word): the order in which
\* they are tried is the order of declaration, whatever they are called
Ign2 == << Rgx(<<"cat", <<Cls(<<126>>), RxStarG(Cls(<<a>>))>>>>), Str(<<126>>) >>
G0 == [rules |-> Base, ign |-> Ign2, start |-> "start"]
G1 == [rules |-> Rename(Base, Rho), ign |-> Ign2, start |-> "start"]

RhoOf(x) == IF x \in DOMAIN Rho THEN Rho[x] ELSE x
StepFixed ==
        /\ ~done
        /\ done' = TRUE
        /\ UNCHANGED <<ri, pi>>
        /\ IF Clash THEN TRUE
           ELSE LET es == <<"start", RhoOf("Item"), RhoOf("Word"), RhoOf("Pair")>>
                    n1 == Len(es) * Len(Texts)
                    es2 == <<"Zlast", "Tuse", "ZW", "ZB", "ZC", "ZI">>        \* secondary entries: a few texts each
                    n2 == Len(es2) * Len(Texts2)
                    cur == << <<42, 42, a>>, <<42, 42>>, <<42>>, <<42, 42, 42>>, <<>> >>
                IN PrintT(ToJson([g |-> G1,
                                  cfg |-> [prop |-> "C20", renamed |-> Roles[ri][1], role |-> Roles[ri][2], to |-> Pool[pi].name,
                                           ign_names |-> <<RhoOf("Junk"), RhoOf("Til")>>],
                                  runs |-> [k \in 1..(n1 + n2 + Len(cur)) |->
                                              IF k <= n1
                                              THEN Run(G1, es[((k - 1) \div Len(Texts)) + 1], Texts[((k - 1) % Len(Texts)) + 1], 0)
                                              ELSE IF k <= n1 + n2
                                              THEN Run(G1, es2[((k - n1 - 1) \div Len(Texts2)) + 1],
                                                       Texts2[((k - n1 - 1) % Len(Texts2)) + 1], 0)
                                              ELSE RunArgs(G1, RhoOf("Cnt"), << <<"i", 2>> >>, cur[k - n1 - n2], 0)]]))

Next == StepFixed

\* renaming the grammar renames the results and changes nothing else
LawRenaming ==
    (done /\ ~Clash) =>
    \A k \in 1..Len(Texts) :
        LET r0 == EvalEntry(G0, "start", Texts[k], 0)
            r1 == EvalEntry(G1, "start", Texts[k], 0)
        IN r0.t = r1.t /\ r0.e = r1.e /\ r0.far = r1.far /\ (r0.t = "ok" => r1.v = RenV(r0.v, Rho))
=============================================================================
