CONSTANTS
  Tier = "quick"
INIT Init
NEXT Next
INVARIANT LawBounds
INVARIANT LawSepShape
CHECK_DEADLOCK FALSE
