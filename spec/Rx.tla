------------------------------- MODULE Rx -------------------------------
(***************************************************************************)
(* A small backtracking regular-expression matcher.  It gives the meaning *)
(* of the regex leaves used by the grammar families: Python's              *)
(* `compiled.match(text, pos)` succeeds iff RxEnds(r, text, pos) is not    *)
(* empty and then ends at its FIRST element (RxEnds lists the candidate    *)
(* end positions in backtracking-priority order).                          *)
(*                                                                         *)
(* Text is a sequence of code points, positions are 0-based offsets.       *)
(* Regex AST (tagged tuples):                                              *)
(*   <<"c",  S>>        one character out of the sequence S              *)
(*   <<"nc", S>>        one character not in S                             *)
(*   <<"cat", <<r1, ..., rn>>>>   concatenation (n >= 0)                   *)
(*   <<"alt", <<r1, ..., rn>>>>   ordered alternation (n >= 1)             *)
(*   <<"star", r, greedy>>, <<"plus", r, greedy>>, <<"q", r, greedy>>      *)
(*   <<"la", r, positive>>        lookahead (?=r) / (?!r)                  *)
(* Bodies of star/plus are non-nullable in all families; an iteration      *)
(* that makes no progress is not continued (this keeps the definition      *)
(* well founded and agrees with Python for non-nullable bodies).           *)
(***************************************************************************)
EXTENDS Integers, Sequences

RxFold(c) == IF c >= 65 /\ c <= 90 THEN c + 32 ELSE c   \* ASCII lower-casing

(* S is a sequence of code points (a sequence, not a set, so that the same  *)
(* AST can be read from JSON)                                              *)
RxIn(c, S, icase) ==
    \E k \in 1..Len(S) : IF icase THEN RxFold(S[k]) = RxFold(c) ELSE S[k] = c

RECURSIVE RxEnds(_, _, _, _)
RECURSIVE RxCat(_, _, _, _, _)
RECURSIVE RxAlt(_, _, _, _, _)
RECURSIVE RxStar(_, _, _, _, _)
RECURSIVE RxStarEach(_, _, _, _, _, _, _)

RxEnds(r, txt, p, ic) ==
    CASE r[1] = "c"    -> IF p < Len(txt) /\ RxIn(txt[p + 1], r[2], ic) THEN <<p + 1>> ELSE <<>>
      [] r[1] = "nc"   -> IF p < Len(txt) /\ ~RxIn(txt[p + 1], r[2], ic) THEN <<p + 1>> ELSE <<>>
      [] r[1] = "cat"  -> RxCat(r[2], 1, txt, <<p>>, ic)
      [] r[1] = "alt"  -> RxAlt(r[2], 1, txt, p, ic)
      [] r[1] = "star" -> RxStar(r[2], r[3], txt, p, ic)
      [] r[1] = "plus" -> RxStarEach(r[2], r[3], txt, RxEnds(r[2], txt, p, ic), 1, p, ic)
      [] r[1] = "q"    -> IF r[3] THEN RxEnds(r[2], txt, p, ic) \o <<p>>
                                  ELSE <<p>> \o RxEnds(r[2], txt, p, ic)
      [] r[1] = "la"   -> IF (RxEnds(r[2], txt, p, ic) # <<>>) = r[3] THEN <<p>> ELSE <<>>

(* concatenation: thread the ordered list of current positions through the items *)
RxCat(rs, i, txt, ps, ic) ==
    IF i > Len(rs) THEN ps
    ELSE LET step[k \in 0..Len(ps)] ==
                 IF k = 0 THEN <<>> ELSE step[k - 1] \o RxEnds(rs[i], txt, ps[k], ic)
         IN RxCat(rs, i + 1, txt, step[Len(ps)], ic)

RxAlt(rs, i, txt, p, ic) ==
    IF i > Len(rs) THEN <<>>
    ELSE RxEnds(rs[i], txt, p, ic) \o RxAlt(rs, i + 1, txt, p, ic)

RxStar(r, greedy, txt, p, ic) ==
    LET more == RxStarEach(r, greedy, txt, RxEnds(r, txt, p, ic), 1, p, ic)
    IN IF greedy THEN more \o <<p>> ELSE <<p>> \o more

(* for each end q (in order) of one iteration started at p0: continue r* at q *)
RxStarEach(r, greedy, txt, qs, k, p0, ic) ==
    IF k > Len(qs) THEN <<>>
    ELSE (IF qs[k] > p0 THEN RxStar(r, greedy, txt, qs[k], ic) ELSE <<>>)
         \o RxStarEach(r, greedy, txt, qs, k + 1, p0, ic)

(* -1 = no match *)
RxMatch(r, txt, p, ic) ==
    LET es == RxEnds(r, txt, p, ic) IN IF es = <<>> THEN -1 ELSE es[1]

(* can r match the empty string?  (static, conservative: used by WF) *)
RECURSIVE RxNullable(_)
RxNullable(r) ==
    CASE r[1] \in {"c", "nc"} -> FALSE
      [] r[1] = "cat"  -> \A i \in 1..Len(r[2]) : RxNullable(r[2][i])
      [] r[1] = "alt"  -> \E i \in 1..Len(r[2]) : RxNullable(r[2][i])
      [] r[1] \in {"star", "q", "la"} -> TRUE
      [] r[1] = "plus" -> RxNullable(r[2])
=============================================================================
