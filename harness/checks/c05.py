"""C05 - bound names and data-dependent predicates."""
import random

import gen
import pegcheck


def run(chk):
    chk.rule = ('cases = (grammar, input); grammars enumerated by TLC (MC_C05: element kinds x separator kinds x all '
                'bound forms 0..3 x bounds read from the input via let / class let-field / template parameter x all '
                'accepted Sep option vectors x enclosing contexts) plus seeded random core grammars rich in '
                'repetitions and Sep judged by the same specification; non-trivial = well-formed per the '
                'specification; distinct by (description, input)')
    chk.assumptions += ['PegSem!EvalList / EvalSep are the documented meaning of e{m,n} and Sep(...); LawBounds and '
                        'LawSepShape are model-checked on every member']
    cases = pegcheck.collect(chk, 'MC_C05', 'MC_C05_' + chk.tier, timeout_s=3000)
    chk.notes['tlc_enumerated_grammars'] = len(cases)
    pegcheck.replay(chk, cases, sample_every=20011)
