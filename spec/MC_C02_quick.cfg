CONSTANTS
  Tier = "quick"
INIT Init
NEXT Next
INVARIANT LawFlatten
INVARIANT LawExtends
INVARIANT LawVMRefines
INVARIANT LawVMFlags
INVARIANT LawVMNoBadState
CHECK_DEADLOCK FALSE
