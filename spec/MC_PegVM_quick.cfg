CONSTANTS
  Tier = "quick"
INIT Init
NEXT Next
INVARIANT VMRefinesSem
CHECK_DEADLOCK FALSE
