"""C10 - class instances carry the exact span of input they were parsed from."""
import engine
import pegcheck


def span_diff(ev, ov, path='result'):
    """Compare a spec value with finalised spans against an observed one.
    Returns None or a reason.  -1 in a spec position means 'not judged'
    (offset holds a line break); ['nojudge'] = instance consumed nothing."""
    if not isinstance(ev, list) or not ev:
        return None if ev == ov else 'value differs at %s' % path
    k = ev[0]
    if k == 'o':
        if not (isinstance(ov, list) and ov and ov[0] == 'o' and ov[1] == ev[1] and len(ov[2]) == len(ev[2])):
            return 'value differs at %s' % path
        for (fn, fv), (gn, gv) in zip(ev[2], ov[2]):
            if fn != gn:
                return 'field names differ at %s' % path
            d = span_diff(fv, gv, path + '.' + fn)
            if d:
                return d
        es = ev[3]
        if es and es[0] == 'nojudge':
            return None
        os_ = ov[3] if len(ov) > 3 else []
        if not os_ or os_[0] == 'raw':
            return 'no position_info (or unconverted raw offsets %r) at %s, expected %r' % (os_, path, es)
        for which, ep, op in (('start', es[0], os_[0]), ('end', es[1], os_[1])):
            if ep[0] != op[0]:
                return '%s.index differs at %s: expected %d, observed %r' % (which, path, ep[0], op[0])
            if ep[1] >= 0 and (ep[1] != op[1] or ep[2] != op[2]):
                return '%s line/column differ at %s: expected (%d, %d), observed (%r, %r)' % (
                    which, path, ep[1], ep[2], op[1], op[2])
        return None
    if k in ('l', 'tu'):
        if not (isinstance(ov, list) and ov and ov[0] == k and len(ov[1]) == len(ev[1])):
            return 'value differs at %s' % path
        for i, (x, y) in enumerate(zip(ev[1], ov[1])):
            d = span_diff(x, y, '%s[%d]' % (path, i))
            if d:
                return d
        return None
    if k in ('I', 'P', 'Q'):
        if not (isinstance(ov, list) and ov and ov[0] == k):
            return 'value differs at %s' % path
        for i in range(1, len(ev)):
            d = span_diff(ev[i], ov[i], '%s.%d' % (path, i))
            if d:
                return d
        return None
    return None if ev == ov else 'value differs at %s' % path


def judge(case, run, exp, obs):
    if exp[0] != 'ok' or obs[0] != 'ok':
        return engine.judge_run(exp, obs, run[2])
    if obs[2] >= 0 and obs[2] != exp[2]:
        return 'end position differs: expected %d, observed %d' % (exp[2], obs[2])
    return span_diff(exp[1], obs[1])


def run(chk):
    chk.rule = ('cases = (class grammar, entry, text, offset); TLC (MC_C10) enumerates five grammars (nested / repeated / '
                'optional classes, abandoned alternatives that built instances, memoised reuse [Expect(A), A], classes '
                'inside an operator table and a class template; with and without ignore) x entries x all texts up to '
                'the bound over an alphabet with blanks and line breaks x every offset; every instance reachable from '
                'the result or partial_result is compared (index, line, column of start and end); non-trivial = the '
                'match succeeded (an object was built) or failed beyond the offset')
    chk.assumptions += ['instances that consumed nothing and offsets that hold a line break are not judged for '
                        'line/column, as the property says',
                        'LawNesting (spans nest and lie within the match) is model-checked on every member']
    cases = pegcheck.collect(chk, 'MC_C10', 'MC_C10_' + chk.tier, timeout_s=3000)
    for c in cases:
        c['cfg'] = dict(c.get('cfg') or {}, spans=True)
    pegcheck.replay(chk, cases, judge=judge, sample_every=4999)
