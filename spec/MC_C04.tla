------------------------------- MODULE MC_C04 -------------------------------
(***************************************************************************)
(* C04 - ignored patterns are skipped exactly at token boundaries.         *)
(* Family = grammar shape (every literal kind, every enclosing form that   *)
(* matters: sequence, option, choice with a branch that fails after a      *)
(* token, lookahead, negative lookahead, separated list, empty literal,    *)
(* look-behind probe, class start rule) x ignore declaration (one pattern, *)
(* two patterns, a multi-token ignore rule) x how it is declared (before / *)
(* after the rules, named / anonymous, `ignore` / `ignored`) x entry       *)
(* (parse: leading skip; other rules: none).  Rest-capturing regexes and   *)
(* Backtrack(1) >> /./ make the exact stopping point of every skip         *)
(* observable.  Law: lengthening a run of ignorable text that is already   *)
(* being skipped changes no value (for members without look-behind whose   *)
(* tokens cannot match ignorable text).                                    *)
(***************************************************************************)
EXTENDS Fam, PegVM

CONSTANTS Tier

sp == 32
dash == 45
comma == 44
lpar == 40
rpar == 41

A1 == Str(<<a>>)
B1 == Str(<<b>>)
W  == Rgx(RxPlus(Cls(<<a, b>>)))
RestAll == Rgx(RxStarG(Cls(<<a, b, bigA, sp, dash, comma, lpar, rpar>>)))
AnyCh == Rgx(Cls(<<a, b, bigA, sp, dash, comma, lpar, rpar>>))

Shapes == <<
  (* 1 *) Seq2(Ref("W"), Opt(Ref("W"))),
  (* 2 *) Right(A1, RestAll),
  (* 3 *) Seq2(Expect(A1), RestAll),                       \* a skip inside lookahead is undone with it
  (* 4 *) Seq2(Opt(A1), RestAll),
  (* 5 *) Seq2(Ch2(Seq2(A1, B1), A1), RestAll),            \* branch fails after token + skip
  (* 6 *) Seq3(A1, Back(1), AnyCh),                        \* look behind: what was skipped last
  (* 7 *) Ref("S"),                                        \* class (also used as start rule)
  (* 8 *) Seq2(StrI(<<a>>), RestAll),
  (* 9 *) SepPlain(A1, Str(<<comma>>)),
  (* 10 *) Seq3(Not(B1), A1, RestAll),
  (* 11 *) Seq2(Str(<<>>), RestAll),                       \* the empty literal is not followed by a skip
  (* 12 *) Seq2(Star(A1), RestAll),
  (* 13 *) Seq2(Long2(A1, Str(<<a, b>>)), RestAll),
  (* 14 *) Seq2(PyInt(7), RestAll),                        \* inline Python is no token
  (* 15 *) Seq2(Plus(Ref("Tok")), RestAll),                \* tokens through a rule reference
  (* 16 *) Seq2(Rgx(RxCat2(Cls(<<a>>), <<"q", Cls(<<sp>>), TRUE>>)), RestAll)   \* a token that itself matches a blank
>>

IgnSets == <<
  (* 1 *) << Rgx(RxPlus(Cls(<<sp>>))) >>,
  (* 2 *) << Rgx(RxPlus(Cls(<<sp>>))), Str(<<dash>>) >>,
  (* 3 *) << Rgx(RxPlus(Cls(<<sp>>))), Left(Right(Str(<<lpar>>), Rgx(RxStarG(Cls(<<a, b>>)))), Str(<<rpar>>)) >>,
  (* 4: overlapping patterns - their ORDER matters: "--ab" is one comment, not two dashes and a word *)
          << Rgx(RxCat2(RxCat2(Cls(<<dash>>), Cls(<<dash>>)), RxStarG(Cls(<<a, b>>)))), Str(<<dash>>), Rgx(RxPlus(Cls(<<sp>>))) >>
>>

Rules(s) ==
    [ start |-> IF s = 17 THEN Class(<<LetF("o", A1), Field("y", Opt(Ref("W"))), Field("z", RestAll)>>)   \* first member: a constant let
                ELSE IF s = 7 THEN Class(<<Field("x", A1), Field("y", Opt(Ref("W"))), Field("z", RestAll)>>)
                ELSE Rule(Shapes[s]),
      W     |-> Rule(W),
      Tok   |-> Rule(Ch2(A1, B1)),
      S     |-> Class(<<Field("x", A1), Field("y", Opt(Ref("W")))>>),
      R     |-> Rule(IF s \in {7, 17} THEN Seq2(Ref("S"), RestAll) ELSE Shapes[s]) ]     \* same body, but not the start rule

Grammar(s, i) == [rules |-> Rules(s), ign |-> IgnSets[i], start |-> "start"]

Alpha(i) == CASE i = 1 -> <<a, b, sp>> [] i = 2 -> <<a, b, sp, dash>> [] i = 3 -> <<a, sp, lpar, rpar>> [] i = 4 -> <<a, b, dash>>
N == IF Tier = "quick" THEN 4 ELSE 5
Texts(s, i) == TextSeqUpTo(Alpha(i), N)
     \o << <<sp, a, sp, sp, b, sp>>, <<a, sp, sp, sp, a>>, <<sp, sp, a, b, sp, a, sp, sp>>, <<bigA, sp, a>>,
           <<a, sp, comma, sp, a, sp, comma, sp>>, <<a, comma, sp, sp, a>>, <<sp, a, sp, comma, a, comma>> >>
     \o (IF i = 4 THEN << <<a, dash, dash, a, b, sp, b>>, <<dash, dash, a, sp, a, dash, b>>, <<a, dash, dash, dash, b>> >> ELSE <<>>)
     \o (IF i = 2 THEN << <<a, dash, sp, dash, b>>, <<dash, dash, a, sp, dash>> >> ELSE <<>>)
     \o (IF i = 3 THEN << <<a, lpar, a, b, rpar, sp, a>>, <<lpar, rpar, a, lpar, sp, rpar, a>>, <<a, lpar, a, sp, rpar, a>>,
                          <<a, sp, lpar, lpar, rpar, a>> >> ELSE <<>>)

(* declaration variants: <<ign_first, named, keyword>> *)
Decls == { <<f, n, k>> : f \in {TRUE, FALSE}, n \in {TRUE, FALSE}, k \in {"ignore", "ignored"} }
DeclsQuick == { <<FALSE, FALSE, "ignore">>, <<TRUE, TRUE, "ignored">>, <<TRUE, FALSE, "ignore">> }

VARIABLES s, ig, decl, done
vars == <<s, ig, decl, done>>

Init == /\ s \in 1..(Len(Shapes) + 1) /\ ig \in 1..Len(IgnSets)
        /\ decl \in (IF Tier = "quick" THEN DeclsQuick ELSE Decls)
        /\ done = FALSE

Cfg == [prop |-> "C04", ign_first |-> decl[1],
        ign_names |-> IF decl[2] THEN <<"Blank", "Junk", "More">> ELSE <<"", "", "">>,
        style |-> [ignore_kw |-> decl[3]]]

Step == /\ ~done
        /\ done' = TRUE
        /\ UNCHANGED <<s, ig, decl>>
        /\ EmitCase(Grammar(s, ig), Cfg, <<"start", "R">>, Texts(s, ig))

Next == Step

(* ---- lengthening law ---- *)
\* insert one more blank after every blank of the text
RECURSIVE Lengthen(_)
Lengthen(t) == IF t = <<>> THEN <<>>
               ELSE IF Head(t) = sp THEN <<sp, sp>> \o Lengthen(Tail(t)) ELSE <<Head(t)>> \o Lengthen(Tail(t))

\* members whose tokens neither match nor look at blanks, without look-behind, and
\* whose results do not capture the raw rest of the input
LengthenOK == s \in {1, 9} /\ ig \in {1, 2}

LawLengthen ==
    (done /\ LengthenOK) =>
    \A k \in 1..Len(Texts(s, ig)) :
        LET t == Texts(s, ig)[k]
            G == [Grammar(s, ig) EXCEPT !.rules = [@ EXCEPT !.start = IF s = 7 THEN Rules(s).S ELSE @]]
            r1 == EvalEntry(G, "start", t, 0)
            r2 == EvalEntry(G, "start", Lengthen(t), 0)
        IN \* only where the skip is already running: texts that start with the first token
           (t # <<>> /\ Head(t) # sp) =>
             (r1.t = r2.t /\ (r1.t = "ok" /\ r1.v[1] # "o" => r1.v = r2.v))

(* ---- mechanism layer: the generated code's way of skipping (PegVM: skip_ignored on every literal, the rule ---- *)
(* ---- _ignored = Skip(refs), the leading skip spliced into the start rule) computes the meaning           ---- *)
VMG == [rules |-> [n \in {"start", "W", "Tok", "R"} |-> Rules(s)[n]], ign |-> IgnSets[ig], start |-> "start"]
LawVMRefines ==
    (done /\ s \notin {7, 14, 17}) =>
    /\ GInVM(VMG)
    /\ \A k \in 1..Len(Texts(s, ig)) :
          /\ Refines(VMG, Ref("start"), Texts(s, ig)[k])
          /\ Refines(VMG, Ref("R"), Texts(s, ig)[k])
=============================================================================
