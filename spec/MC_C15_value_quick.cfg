CONSTANTS
  Tier = "quick"
  Mode = "value"
INIT Init
NEXT Next
INVARIANT VisitRefines
INVARIANT TraverseRefines
INVARIANT EventsBalanced
INVARIANT PreorderOnce
INVARIANT IdentityTransform
CHECK_DEADLOCK FALSE
