------------------------------ MODULE Packrat ------------------------------
(***************************************************************************)
(* The trampolining, memoising driver `_run` (sourcer/translator.py,       *)
(* _main_template) as a state machine - one action per step of its         *)
(* `while stack:` loop - for any number of parse calls that may overlap    *)
(* (threads) or nest (a parse started from inline Python of another).      *)
(*                                                                         *)
(* Per live call c:                                                        *)
(*   stack[c] : sequence of keys - the explicit stack of suspended rule    *)
(*              generators (top = last)                                    *)
(*   memo[c]  : function key -> result, the per-call memo table            *)
(*   last[c]  : the result register (what the next resumed generator       *)
(*              receives); <<"none">> right after a push                   *)
(*   evals[c] : set of keys whose body has been started (history)          *)
(*   host[c]  : host-language stack depth observed at the call's events    *)
(* Keys are <<rule, pos>> for parameterless rules (plain keys) and         *)
(* <<rule, pos, argid>> for parameterised ones.  Results are               *)
(* <<status, end, oid>>: oid identifies the value object (0 on failure).   *)
(*                                                                         *)
(* The actions take the key / result as parameters.  MC_Packrat drives     *)
(* them from an abstract program (what each rule body requests and         *)
(* returns); Trace_Packrat drives them from events logged by the real      *)
(* driver.  Both check the same invariants.                                *)
(***************************************************************************)
EXTENDS Integers, Sequences, FiniteSets, TLC

VARIABLES stack, memo, last, evals, host, finished

pvars == <<stack, memo, last, evals, host, finished>>

Live == DOMAIN stack

NoRes == <<"none">>

PInit == /\ stack = <<>> /\ memo = <<>> /\ last = <<>> /\ evals = <<>> /\ host = <<>>
         /\ finished = {}

Top(c) == stack[c][Len(stack[c])]
IsPlain(k) == Len(k) = 2

Ext(f, c, v) == (c :> v) @@ f
Drop(f, c) == [x \in (DOMAIN f) \ {c} |-> f[x]]

(* the call starts: fresh memo, the start key on the stack, its body begins *)
Begin(c, k, h) ==
    /\ c \notin Live /\ c \notin finished
    /\ stack' = Ext(stack, c, <<k>>)
    /\ memo'  = Ext(memo, c, <<>>)
    /\ last'  = Ext(last, c, NoRes)
    /\ evals' = Ext(evals, c, {k})
    /\ host'  = Ext(host, c, h)
    /\ UNCHANGED finished

(* the running body requests k, which is not memoised: its body starts *)
Push(c, k, h) ==
    /\ c \in Live /\ stack[c] # <<>>
    /\ k \notin DOMAIN memo[c]                       \* else the memo was ignored
    /\ \A i \in 1..Len(stack[c]) : stack[c][i] # k    \* else left recursion
    /\ stack' = [stack EXCEPT ![c] = Append(@, k)]
    /\ evals' = [evals EXCEPT ![c] = @ \cup {k}]
    /\ last'  = [last EXCEPT ![c] = NoRes]
    /\ host'  = [host EXCEPT ![c] = h]
    /\ UNCHANGED <<memo, finished>>

(* the running body requests k, which is memoised: it receives the stored result *)
Hit(c, k, r, h) ==
    /\ c \in Live /\ stack[c] # <<>>
    /\ k \in DOMAIN memo[c]
    /\ memo[c][k] = r                                \* same status, end and value object
    /\ last' = [last EXCEPT ![c] = r]
    /\ host' = [host EXCEPT ![c] = h]
    /\ UNCHANGED <<stack, memo, evals, finished>>

(* the running body (top of the stack) completes with result r *)
Ret(c, k, r, h) ==
    /\ c \in Live /\ stack[c] # <<>>
    /\ Top(c) = k
    /\ k \notin DOMAIN memo[c]
    /\ memo'  = [memo EXCEPT ![c] = Ext(@, k, r)]
    /\ stack' = [stack EXCEPT ![c] = SubSeq(@, 1, Len(@) - 1)]
    /\ last'  = [last EXCEPT ![c] = r]
    /\ host'  = [host EXCEPT ![c] = h]
    /\ UNCHANGED <<evals, finished>>

(* the stack is empty: the call ends with the last result; its state is dropped *)
End(c, r) ==
    /\ c \in Live /\ stack[c] = <<>>
    /\ last[c] = r
    /\ stack' = Drop(stack, c) /\ memo' = Drop(memo, c) /\ last' = Drop(last, c)
    /\ evals' = Drop(evals, c) /\ host' = Drop(host, c)
    /\ finished' = finished \cup {c}

(* user code raised: the call is abandoned wherever it is; nothing of it survives *)
Abort(c) ==
    /\ c \in Live
    /\ stack' = Drop(stack, c) /\ memo' = Drop(memo, c) /\ last' = Drop(last, c)
    /\ evals' = Drop(evals, c) /\ host' = Drop(host, c)
    /\ finished' = finished \cup {c}

(* ---- invariants ---- *)
\* every stored result belongs to a key whose body this call started (no foreign entries)
MemoOwn == \A c \in Live : DOMAIN memo[c] \subseteq evals[c]

\* the keys on the stack are distinct, started, and not yet memoised
StackSane == \A c \in Live :
    LET onstack == {stack[c][i] : i \in 1..Len(stack[c])} IN
    /\ Cardinality(onstack) = Len(stack[c])
    /\ onstack \subseteq evals[c]
    /\ onstack \cap DOMAIN memo[c] = {}

\* every started body is either still on the stack or memoised: nothing is evaluated and lost
NothingLost == \A c \in Live : evals[c] = DOMAIN memo[c] \cup {stack[c][i] : i \in 1..Len(stack[c])}

\* packrat bound: plain keys started <= rules x positions (given the key universe)
MemoBound(nrules, npos) == \A c \in Live :
    Cardinality({k \in evals[c] : IsPlain(k)}) <= nrules * npos
=============================================================================
