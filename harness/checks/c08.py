"""C08 - parse has exactly three outcomes, fixed by the start rule's match."""
import pegcheck


def expand(cases):
    """Every run with fullparse True and False; the start rule through the
    module-level parse and through start.parse."""
    out = []
    for c in cases:
        runs, exps = [], []
        for r, x in zip(c['runs'], c['exp']):
            for full in (True, False):
                runs.append([r[0], r[1], r[2], full])
                exps.append(x)
        variants = [False]
        if c['runs'] and not isinstance(c['runs'][0][0], list) and c['runs'][0][0] in (c['g'].get('start'), (c.get('cfg') or {}).get('module_entry')):
            variants = [False, True]
        for via in variants:
            c2 = dict(c)
            c2['id'] = len(out)
            c2['runs'] = runs
            c2['exp'] = exps
            cfg = dict(c.get('cfg') or {})
            cfg['via_rule'] = via
            c2['cfg'] = cfg
            out.append(c2)
    return out


def run(chk):
    chk.rule = ('cases = (grammar, entry point, text, start offset, fullparse); TLC (MC_C08) enumerates four grammars '
                '(plain rules, classes incl. ones matching nothing, lookahead, ignore) x every rule/class as entry x '
                'every text up to the bound incl. the empty text x every offset; each run is replayed with '
                'fullparse True and False, the start rule through parse() and start.parse; non-trivial = matches or '
                'fails after examining input beyond the offset; distinct by (description, entry, text, offset, fullparse)')
    chk.assumptions += ['PegSem!Outcome classifies the three outcomes; LawShift (offset k = suffix shifted by k, '
                        'values, spans, ends and farthest-failure positions) is model-checked on every member']
    cases = pegcheck.collect(chk, 'MC_C08', 'MC_C08_' + chk.tier, timeout_s=3000)
    cases = expand(cases)
    chk.notes['entry_point_cases'] = len(cases)
    pegcheck.replay(chk, cases, sample_every=9973)
