"""Driver-trace recording (hook H1 + probes) and validation by TLC (Trace_Packrat)."""
import json
import os
import re
import shutil

import sys

import sys as _sys

import engine
import realrun
import render
import tlc
from common import MachineryFailure


# ---------------------------------------------------------------------------
# worker side: record the driver events of the runs of one case
# ---------------------------------------------------------------------------
def record_case(case):
    """Build case['desc'] (or render case['g']) with the hook on, run every
    run, return the recorded events plus the plain observations."""
    import sourcer_verif_rt as rt
    cfg = case.get('cfg') or {}
    bm = cfg.get('bytes', False)
    desc = case.get('desc') or engine.describe(case)
    for pre in cfg.get('pre', []):          # named grammars that `desc` extends
        bp = realrun.build(pre)
        if bp[0] != 'ok':
            return {'id': case['id'], 'desc': pre, 'build': list(bp), 'obs': [], 'events': []}
    b = realrun.build(desc)
    if b[0] != 'ok':
        return {'id': case['id'], 'desc': desc, 'build': list(b), 'obs': [], 'events': []}
    mod = b[1]
    if '_verif_tracer' not in mod.__dict__ and not cfg.get('probes_only'):
        return {'id': case['id'], 'desc': desc, 'build': ['no-hook'], 'obs': [], 'events': []}
    obs = []
    events = []
    rt.drain()
    rt.enable(True)
    try:
        for run in case['runs']:
            entry, text, pos = run[0], run[1], run[2]
            full = run[3] if len(run) > 3 else True
            fn = mod.parse if entry in ('<module>', case.get('start', 'start')) and hasattr(mod, 'parse') and not cfg.get('via_rule') \
                else getattr(mod, entry).parse
            txt = realrun.to_text(text, bm)
            if cfg.get('probes'):
                rt.mark('pbegin')
            d0 = rt.open_depth()
            o = realrun.call_parse(mod, fn, txt, pos, full)
            if o[0] in ('exc', 'timeout'):
                rt.abort_open(d0)
            if cfg.get('probes'):
                rt.mark('pend', bound=cfg['nrules'] * (len(txt) + 1), n=len(txt))
            obs.append(o)
    finally:
        rt.enable(False)
        events = rt.drain()
        for nm in cfg.get('installed', []):
            _sys.modules.pop(nm, None)
    if cfg.get('project'):
        # long traces: keep only the events of a few rules (plus each call's start rule); see Trace_Packrat!DepthOK
        keep = set(cfg['project'])
        starts = {e['rule'] for e in events if e['ev'] == 'begin'}
        out = []
        for e in events:
            if 'rule' in e and e['ev'] != 'begin':
                if e['rule'] not in keep and e['rule'] not in starts:
                    continue
                e['proj'] = True
            out.append(e)
        events = out
    if cfg.get('probes'):
        # probes report the remaining length; convert to a position using the 'pend' marker
        out, buf = [], []
        for e in events:
            if e['ev'] == 'body':
                buf.append(e)
            elif e['ev'] == 'pend':
                for x in buf:
                    if 'rem' in x:
                        x['pos'] = e['n'] - x.pop('rem')
                out.extend(buf)
                buf = []
                out.append(e)
            else:
                out.append(e)
        events = out
    name = cfg.get('name')
    if name:
        import sys
        sys.modules.pop(name, None)
    return {'id': case['id'], 'desc': desc, 'build': ['ok'], 'obs': obs, 'events': events}


engine.register('record_case', record_case)


# ---------------------------------------------------------------------------
# main side: validation
# ---------------------------------------------------------------------------
_CONS = re.compile(r'"?TRACE-CONSUMED"?, (\d+), (\d+)')


def renumber(events):
    """Call ids are per worker process; make them unique over a batch of cases."""
    return events


def validate(chk, events, label='trace', timeout_s=1200):
    """Validate one event list with TLC.  Returns (accepted, consumed, total)."""
    if not events:
        return True, 0, 0
    d = tlc.scratch('trace-')
    path = os.path.join(d, 'trace.ndjson')
    try:
        with open(path, 'w') as f:
            for e in events:
                f.write(json.dumps(e, separators=(',', ':')))
                f.write('\n')
        got = {}

        def line(s):
            m = _CONS.search(s)
            if m:
                got['consumed'] = int(m.group(1))
                got['total'] = int(m.group(2))
        try:
            r = tlc.run('Trace_Packrat', 'Trace_Packrat', env={'TRACE': path}, workers=1, timeout_s=timeout_s,
                        on_line=line, xmx='6g')
        except tlc.TLCError as e:
            # a violated POSTCONDITION is reported as an error by TLC: that is a verdict, not a failure
            if 'consumed' not in got:
                raise MachineryFailure('trace validation failed to run: %s' % str(e)[:1500])
            r = None
        if r is not None:
            chk.states += r.distinct
            chk.transitions += r.states
            if r.violation:
                return False, got.get('consumed', 0), got.get('total', len(events)), r.violation[:400]
        if 'consumed' not in got:
            raise MachineryFailure('trace validation printed no verdict')
        ok = got['consumed'] == got['total'] == len(events)
        return ok, got['consumed'], got['total'], None
    finally:
        shutil.rmtree(d, ignore_errors=True)


def validate_cases(chk, recs, label, per_batch=400):
    """recs: list of record_case results.  Events of several cases are
    concatenated (call ids made unique) and validated in batches; a rejected
    batch is bisected down to the offending case."""
    def events_of(rs):
        out = []
        base = 0
        for r in rs:
            mx = 0
            for e in r['events']:
                e2 = dict(e)
                if 'c' in e2:
                    mx = max(mx, e2['c'])
                    e2['c'] = e2['c'] + base
                out.append(e2)
            base += mx
        return out

    def check(rs):
        ev = events_of(rs)
        res = validate(chk, ev, label)
        if res[0]:
            return []
        if len(rs) == 1:
            consumed = res[1]
            bad = ev[consumed] if consumed < len(ev) else None
            return [(rs[0], consumed, bad, res[3])]
        mid = len(rs) // 2
        return check(rs[:mid]) + check(rs[mid:])

    bad = []
    for i in range(0, len(recs), per_batch):
        part = [r for r in recs[i:i + per_batch] if r['events']]
        if part:
            bad += check(part)
    return bad
