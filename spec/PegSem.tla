------------------------------ MODULE PegSem ------------------------------
(***************************************************************************)
(* Reference meaning of sourcer's grammar language (the "meaning layer").  *)
(*                                                                         *)
(* Eval(G, e, env, txt, p) is a big-step PEG evaluator over the abstract   *)
(* syntax below; it is written from the documentation (README, docs/,      *)
(* the property statements) and deliberately shares no structure with the  *)
(* code generator: no registers, no checkpoints, no static flags.          *)
(*                                                                         *)
(* Text: sequence of code points (bytes in bytes mode); positions are      *)
(* 0-based offsets 0..Len(txt).                                            *)
(*                                                                         *)
(* Grammar G: record                                                       *)
(*   rules : function  name -> rule                                        *)
(*   ign   : sequence of expressions (the ignore patterns, in order)       *)
(*   start : name of the start rule ("" if none)                           *)
(* rule: record [kind |-> "rule", params |-> <<names>>, body |-> e]        *)
(*     or       [kind |-> "class", params |-> <<names>>,                   *)
(*               members |-> << <<mkind, name, e>>, ... >>]                *)
(*        mkind \in {"field", "let", "pass", "req"}                        *)
(*                                                                         *)
(* Expressions e (tagged tuples):                                          *)
(*   <<"str", s>>  <<"stri", s>>  <<"rx", r, icase>>  <<"byte", n>>        *)
(*   <<"ref", x>>  <<"seq", es>>  <<"left", a, b>>  <<"right", a, b>>      *)
(*   <<"choice", es>>  <<"opt", e>>  <<"list", e, lo, hi>>                 *)
(*   <<"sep", e, s, o>> (o = <<discard, trailer, empty, reqsep>>)          *)
(*   <<"expect", e>>  <<"not", e>>  <<"skip", es>>  <<"longest", es>>      *)
(*   <<"back", n>>  <<"fail">>  <<"let", x, e, body>>  <<"where", e, f>>   *)
(*   <<"apply", a, f>> (a |> f)   <<"applyl", f, a>> (f <| a)              *)
(*   <<"py", P>>  <<"call", x, args>>  <<"optable", operand, rows>>        *)
(*   <<"super", x>>   (resolved by the module layer, see Modules.tla)      *)
(* bounds lo/hi: <<"none">> | <<"n", k>> | <<"name", x>> | <<"py", P>>      *)
(* args: << <<"pos", e>> | <<"kw", name, e>> ... >>                        *)
(*                                                                         *)
(* Values: <<"s", cps>> <<"i", n>> <<"none">> <<"t">> <<"f">>              *)
(*   <<"l", vs>> <<"tu", vs>> <<"o", cls, <<<<field, v>>...>>, <<b, e>>>>  *)
(*   <<"I", l, op, r>> <<"P", op, r>> <<"Q", l, op>> <<"fv", kind, c>>     *)
(*                                                                         *)
(* Results: [t |-> "ok" | "fail" | "ill", v, e (end / failure position),   *)
(*           far (farthest position any sub-evaluation reached)]           *)
(* "ill" marks (grammar, input) pairs outside the properties' domain:      *)
(* repetition of something that succeeded without consuming, a name used   *)
(* in a way the language does not define, inline Python that would raise.  *)
(***************************************************************************)
EXTENDS Integers, Sequences, FiniteSets, TLC, Rx

Mx(a, b) == IF a >= b THEN a ELSE b

Ok(v, e, far)  == [t |-> "ok",   v |-> v,          e |-> e, far |-> far]
Failed(p, far) == [t |-> "fail", v |-> <<"none">>, e |-> p, far |-> far]
Ill            == [t |-> "ill",  v |-> <<"none">>, e |-> 0, far |-> 0]

None == <<"none">>
Bad  == <<"bad">>
EmptyEnv == <<>>                      \* the function with empty domain
Bind(env, x, b) == (x :> b) @@ env

(* ---------------------------------------------------------------------- *)
(* Inline Python: a closed repertoire                                      *)
(* ---------------------------------------------------------------------- *)
Truthy(v) ==
    CASE v[1] = "s"  -> v[2] # <<>>
      [] v[1] = "i"  -> v[2] # 0
      [] v[1] = "none" -> FALSE
      [] v[1] = "t"  -> TRUE
      [] v[1] = "f"  -> FALSE
      [] v[1] \in {"l", "tu", "d"} -> v[2] # <<>>
      [] OTHER -> TRUE

PyBool(b) == IF b THEN <<"t">> ELSE <<"f">>

(* the value a binding denotes when it is used as a Python value *)
AsValue(b) ==
    IF b[1] = "val" THEN b[2]
    ELSE IF b[2][1] = "str" THEN <<"s", b[2][2]>>
    ELSE IF b[2][1] = "byte" THEN <<"i", b[2][2]>>
    ELSE Bad

RECURSIVE DigitsVal(_, _)
DigitsVal(s, n) == IF n = 0 THEN 0 ELSE DigitsVal(s, n - 1) * 10 + (s[n] - 48)

IsDigits(s) == s # <<>> /\ \A i \in 1..Len(s) : s[i] >= 48 /\ s[i] <= 57

RECURSIVE PyEval(_, _)
PyEval(P, env) ==
    CASE P[1] = "var" -> IF P[2] \in DOMAIN env THEN AsValue(env[P[2]]) ELSE Bad
      [] P[1] = "k"   -> P[2]
      [] P[1] = "lst" -> LET vs == [i \in 1..Len(P[2]) |-> PyEval(P[2][i], env)]
                         IN IF \E i \in 1..Len(vs) : vs[i] = Bad THEN Bad ELSE <<"l", vs>>
      [] P[1] = "fn"  -> <<"fv", P[2], None>>
      [] P[1] = "lam" -> LET c == PyEval(P[3], env)
                         IN IF c = Bad THEN Bad ELSE <<"fv", P[2], c>>
      [] P[1] = "eq"  -> LET a == PyEval(P[2], env)  b == PyEval(P[3], env)
                         IN IF a = Bad \/ b = Bad THEN Bad ELSE PyBool(a = b)
      [] P[1] = "or"  -> LET a == PyEval(P[2], env)                  \* (P) or k   (k if P is 0, else P)
                         IN IF a = Bad \/ a[1] # "i" THEN Bad ELSE IF a[2] = 0 THEN <<"i", P[3]>> ELSE a
      [] P[1] = "sub" -> LET a == PyEval(P[2], env)                  \* (P) - k
                         IN IF a = Bad \/ a[1] # "i" THEN Bad ELSE <<"i", a[2] - P[3]>>
      [] P[1] = "len" -> LET a == PyEval(P[2], env)
                         IN IF a = Bad \/ a[1] \notin {"s", "l", "tu"} THEN Bad ELSE <<"i", Len(a[2])>>

(* dict(list of [key, value] pairs): a later pair with the same key replaces the value in place *)
RECURSIVE DictPut(_, _, _, _)
DictPut(items, i, k, v) ==
    IF i > Len(items) THEN Append(items, <<k, v>>)
    ELSE IF items[i][1] = k THEN [items EXCEPT ![i] = <<k, v>>]
    ELSE DictPut(items, i + 1, k, v)
RECURSIVE DictOf(_, _, _)
DictOf(pairs, i, acc) ==
    IF i > Len(pairs) THEN <<"d", acc>>
    ELSE IF pairs[i][1] # "l" \/ Len(pairs[i][2]) # 2 THEN Bad
    ELSE DictOf(pairs, i + 1, DictPut(acc, 1, pairs[i][2][1], pairs[i][2][2]))

PyCall(f, a) ==
    IF f[1] # "fv" \/ a = Bad THEN Bad
    ELSE CASE f[2] = "int"   -> IF a[1] = "s" /\ IsDigits(a[2]) THEN <<"i", DigitsVal(a[2], Len(a[2]))>>
                                ELSE IF a[1] = "i" THEN a ELSE Bad
           [] f[2] = "len"   -> IF a[1] \in {"s", "l", "tu"} THEN <<"i", Len(a[2])>> ELSE Bad
           [] f[2] = "bool"  -> PyBool(Truthy(a))
           [] f[2] = "eq"    -> PyBool(a = f[3])
           [] f[2] = "ne"    -> PyBool(a # f[3])
           [] f[2] = "lengt" -> IF a[1] \in {"s", "l"} /\ f[3][1] \in {"s", "l"}
                                THEN PyBool(Len(a[2]) > Len(f[3][2])) ELSE Bad
           [] f[2] = "const" -> f[3]
           [] f[2] = "pair"  -> <<"l", <<f[3], a>>>>
           [] f[2] = "dict"  -> IF a[1] = "l" THEN DictOf(a[2], 1, <<>>) ELSE Bad
           [] f[2] = "same"  -> a                                        \* an observing callback: returns its argument
           [] f[2] = "wrap"  -> <<"l", <<a>>>>
           [] f[2] = "boomeq" -> IF a = f[3] THEN Bad ELSE <<"t">>      \* user code that raises on one value
           [] OTHER -> Bad

(* ---------------------------------------------------------------------- *)
(* The evaluator                                                           *)
(* ---------------------------------------------------------------------- *)
RECURSIVE Eval(_, _, _, _, _)
RECURSIVE EvalRule(_, _, _, _, _)
RECURSIVE EvalSeq(_, _, _, _, _, _, _, _)
RECURSIVE EvalChoice(_, _, _, _, _, _, _)
RECURSIVE EvalList(_, _, _, _, _, _, _, _, _)
RECURSIVE EvalSep(_, _, _, _, _, _, _, _, _, _)
RECURSIVE EvalSkip(_, _, _, _, _, _)
RECURSIVE EvalLongest(_, _, _, _, _, _, _, _)
RECURSIVE EvalMembers(_, _, _, _, _, _, _, _, _, _)
RECURSIVE SkipIgn(_, _, _)
RECURSIVE BindArgs(_, _, _, _, _, _, _)
RECURSIVE EvalOpTable(_, _, _, _, _)

HasIgnore(G) == G.ign # <<>>

(* after a successfully matched string / regex / byte literal ending at q *)
AfterLit(G, v, q, txt) ==
    IF ~HasIgnore(G) THEN Ok(v, q, q)
    ELSE LET r == SkipIgn(G, txt, q)
         IN IF r.t = "ill" THEN Ill ELSE Ok(v, r.e, Mx(q, r.far))

SkipIgn(G, txt, q) == EvalSkip(G, G.ign, EmptyEnv, txt, q, q)

(* the value a bound denotes: -1 = unbounded / absent, -2 = not a number *)
BoundOf(b, env) ==
    CASE b[1] = "none" -> -1
      [] b[1] = "n"    -> b[2]
      [] b[1] = "name" -> IF b[2] \in DOMAIN env
                          THEN LET v == AsValue(env[b[2]]) IN
                               IF v[1] = "i" THEN (IF v[2] < 0 THEN 0 ELSE v[2]) ELSE -2
                          ELSE -2
      [] b[1] = "py"   -> LET v == PyEval(b[2], env) IN          \* e{`python expression`}
                          IF v # Bad /\ v[1] = "i" THEN (IF v[2] < 0 THEN 0 ELSE v[2]) ELSE -2

(* Total expressions cannot signal "no match"; inside Skip their progress   *)
(* is the signal.  Deliberately a narrow, syntactic notion (sequences are   *)
(* never total): anything else that succeeds inside Skip without consuming  *)
(* is a repetition of something that can succeed without consuming, i.e.    *)
(* outside the properties' domain ("ill").                                  *)
RECURSIVE Total(_)
Total(e) ==
    CASE e[1] = "str"  -> e[2] = <<>>
      [] e[1] \in {"opt", "skip", "py"} -> TRUE
      [] e[1] = "list" -> e[3] \in {<<"none">>, <<"n", 0>>}
      [] e[1] = "sep"  -> e[4][3] /\ ~e[4][4]
      [] e[1] \in {"choice", "longest"} -> \E i \in 1..Len(e[2]) : Total(e[2][i])
      [] e[1] \in {"left", "right"} -> Total(e[2]) /\ Total(e[3])
      [] e[1] = "expect" -> Total(e[2])
      [] OTHER -> FALSE

Eval(G, e, env, txt, p) ==
    CASE e[1] = "str" ->
           LET s == e[2]  n == Len(e[2]) IN
           IF n = 0 THEN Ok(<<"s", <<>>>>, p, p)
           ELSE IF p + n <= Len(txt) /\ SubSeq(txt, p + 1, p + n) = s
                THEN AfterLit(G, <<"s", s>>, p + n, txt)
                ELSE Failed(p, p)
      [] e[1] = "stri" ->
           LET s == e[2]  n == Len(e[2]) IN
           IF p + n <= Len(txt) /\ \A i \in 1..n : RxFold(txt[p + i]) = RxFold(s[i])
           THEN AfterLit(G, <<"s", SubSeq(txt, p + 1, p + n)>>, p + n, txt)
           ELSE Failed(p, p)
      [] e[1] = "rx" ->
           LET q == RxMatch(e[2], txt, p, e[3]) IN
           IF q < 0 THEN Failed(p, p)
           ELSE AfterLit(G, <<"s", SubSeq(txt, p + 1, q)>>, q, txt)
      [] e[1] = "byte" ->
           IF p < Len(txt) /\ txt[p + 1] = e[2]
           THEN AfterLit(G, <<"i", e[2]>>, p + 1, txt)
           ELSE Failed(p, p)
      [] e[1] = "ref" ->
           IF e[2] \in DOMAIN env
           THEN LET b == env[e[2]] IN
                IF b[1] = "clo" THEN Eval(G, b[2], b[3], txt, p) ELSE Ill
           ELSE IF e[2] \in DOMAIN G.rules
                THEN IF G.rules[e[2]].params = <<>> THEN EvalRule(G, e[2], EmptyEnv, txt, p) ELSE Ill
                ELSE Ill
      [] e[1] = "seq"    -> EvalSeq(G, e[2], 1, env, txt, p, <<>>, p)
      [] e[1] = "left"   ->
           LET a == Eval(G, e[2], env, txt, p) IN
           IF a.t # "ok" THEN a
           ELSE LET b == Eval(G, e[3], env, txt, a.e) IN
                IF b.t = "ill" THEN Ill
                ELSE IF b.t = "fail" THEN Failed(b.e, Mx(a.far, b.far))
                ELSE Ok(a.v, b.e, Mx(a.far, b.far))
      [] e[1] = "right"  ->
           LET a == Eval(G, e[2], env, txt, p) IN
           IF a.t # "ok" THEN a
           ELSE LET b == Eval(G, e[3], env, txt, a.e) IN
                IF b.t = "ill" THEN Ill
                ELSE IF b.t = "fail" THEN Failed(b.e, Mx(a.far, b.far))
                ELSE Ok(b.v, b.e, Mx(a.far, b.far))
      [] e[1] = "choice" -> EvalChoice(G, e[2], 1, env, txt, p, p)
      [] e[1] = "opt" ->
           LET r == Eval(G, e[2], env, txt, p) IN
           IF r.t = "fail" THEN Ok(None, p, Mx(p, r.far)) ELSE r
      [] e[1] = "list" ->
           LET lo == BoundOf(e[3], env)  hi == BoundOf(e[4], env) IN
           IF lo = -2 \/ hi = -2 THEN Ill
           ELSE EvalList(G, e[2], IF lo < 0 THEN 0 ELSE lo, hi, env, txt, p, <<>>, p)
      [] e[1] = "sep" -> EvalSep(G, e, env, txt, p, p, <<>>, FALSE, p, 0)
      [] e[1] = "expect" ->
           LET r == Eval(G, e[2], env, txt, p) IN
           IF r.t = "ok" THEN Ok(r.v, p, Mx(p, r.far)) ELSE r
      [] e[1] = "not" ->
           LET r == Eval(G, e[2], env, txt, p) IN
           IF r.t = "ill" THEN Ill
           ELSE IF r.t = "ok" THEN Failed(p, Mx(p, r.far)) ELSE Ok(None, p, Mx(p, r.far))
      [] e[1] = "skip"    -> EvalSkip(G, e[2], env, txt, p, p)
      [] e[1] = "longest" -> EvalLongest(G, e[2], 1, env, txt, p, Failed(p, p), p)
      [] e[1] = "back" ->
           IF p >= e[2] THEN Ok(None, p - e[2], p) ELSE Failed(p, p)
      [] e[1] = "fail" -> Failed(p, p)
      [] e[1] = "let" ->
           LET r == Eval(G, e[3], env, txt, p) IN
           IF r.t # "ok" THEN r
           ELSE LET b == Eval(G, e[4], Bind(env, e[2], <<"val", r.v>>), txt, r.e) IN
                IF b.t = "ill" THEN Ill ELSE [b EXCEPT !.far = Mx(r.far, b.far)]
      [] e[1] = "where" ->
           LET r == Eval(G, e[2], env, txt, p) IN
           IF r.t # "ok" THEN r
           ELSE LET f == Eval(G, e[3], env, txt, r.e) IN
                IF f.t = "ill" THEN Ill
                ELSE IF f.t = "fail" THEN Failed(f.e, Mx(r.far, f.far))
                ELSE LET c == PyCall(f.v, r.v) IN
                     IF c = Bad THEN Ill
                     ELSE IF Truthy(c) THEN Ok(r.v, f.e, Mx(r.far, f.far))
                     ELSE Failed(f.e, Mx(r.far, f.far))
      [] e[1] \in {"apply", "applyl"} ->
           LET r == Eval(G, e[2], env, txt, p) IN
           IF r.t # "ok" THEN r
           ELSE LET s == Eval(G, e[3], env, txt, r.e) IN
                IF s.t = "ill" THEN Ill
                ELSE IF s.t = "fail" THEN Failed(s.e, Mx(r.far, s.far))
                ELSE LET c == IF e[1] = "apply" THEN PyCall(s.v, r.v) ELSE PyCall(r.v, s.v) IN
                     IF c = Bad THEN Ill ELSE Ok(c, s.e, Mx(r.far, s.far))
      [] e[1] = "py" ->
           LET v == PyEval(e[2], env) IN IF v = Bad THEN Ill ELSE Ok(v, p, p)
      [] e[1] = "call" ->
           \* the callee is a template of the grammar, or a parameter bound to the name of one (higher-order rule)
           LET callee == IF e[2] \in DOMAIN env
                         THEN (IF env[e[2]][1] = "clo" /\ env[e[2]][2][1] = "ref" THEN env[e[2]][2][2] ELSE "")
                         ELSE e[2] IN
           IF callee \notin DOMAIN G.rules THEN Ill
           ELSE LET ps == G.rules[callee].params
                    b  == BindArgs(G, ps, e[3], 1, 1, env, EmptyEnv) IN
                IF b[1] # "env" THEN Ill ELSE EvalRule(G, callee, b[2], txt, p)
      [] e[1] = "optable" -> EvalOpTable(G, e, env, txt, p)

(* positional arguments bind in order, keyword arguments by name.  An      *)
(* argument that is inline Python is a value; a bare bound name passes its *)
(* binding on; anything else is a parser closed over the call-site env.    *)
BindArgs(G, ps, args, i, nextpos, env, acc) ==
    IF i > Len(args)
    THEN IF DOMAIN acc = {ps[k] : k \in 1..Len(ps)} THEN <<"env", acc>> ELSE Bad
    ELSE LET a  == args[i]
             ae == IF a[1] = "kw" THEN a[3] ELSE a[2]
             nm == IF a[1] = "kw" THEN a[2]
                   ELSE IF nextpos <= Len(ps) THEN ps[nextpos] ELSE ""
             b  == IF ae[1] = "py"
                   THEN LET v == PyEval(ae[2], env) IN IF v = Bad THEN Bad ELSE <<"val", v>>
                   ELSE IF ae[1] = "ref" /\ ae[2] \in DOMAIN env THEN env[ae[2]]
                   ELSE <<"clo", ae, env>>
         IN IF nm = "" \/ nm \in DOMAIN acc \/ b = Bad \/ ~(\E k \in 1..Len(ps) : ps[k] = nm) THEN Bad
            ELSE BindArgs(G, ps, args, i + 1, IF a[1] = "kw" THEN nextpos ELSE nextpos + 1,
                          env, Bind(acc, nm, b))

EvalRule(G, name, argenv, txt, p) ==
    LET r == G.rules[name]
        lead == IF name = G.start /\ HasIgnore(G) THEN SkipIgn(G, txt, p) ELSE Ok(None, p, p)
    IN IF lead.t = "ill" THEN Ill
       ELSE IF r.kind = "rule"
            THEN LET b == Eval(G, r.body, argenv, txt, lead.e) IN
                 IF b.t = "ill" THEN Ill ELSE [b EXCEPT !.far = Mx(lead.far, b.far)]
            ELSE EvalMembers(G, name, r.members, 1, argenv, txt, lead.e, <<>>, p, Mx(p, lead.far))

(* class body: members in order, names bound as they are parsed *)
EvalMembers(G, cls, ms, i, env, txt, p, fields, start, far) ==
    IF i > Len(ms) THEN Ok(<<"o", cls, fields, <<start, p>>>>, p, Mx(far, p))
    ELSE LET m == ms[i] IN
         IF m[1] = "req"
         THEN LET c == PyEval(m[3], env) IN
              IF c = Bad THEN Ill
              ELSE IF Truthy(c) THEN EvalMembers(G, cls, ms, i + 1, env, txt, p, fields, start, far)
              ELSE Failed(p, Mx(far, p))
         ELSE LET r == Eval(G, m[3], env, txt, p) IN
              IF r.t = "ill" THEN Ill
              ELSE IF r.t = "fail" THEN Failed(r.e, Mx(far, r.far))
              ELSE EvalMembers(G, cls, ms, i + 1,
                               IF m[1] = "pass" THEN env ELSE Bind(env, m[2], <<"val", r.v>>),
                               txt, r.e,
                               IF m[1] = "field" THEN Append(fields, <<m[2], r.v>>) ELSE fields,
                               start, Mx(far, r.far))

EvalSeq(G, es, i, env, txt, p, acc, far) ==
    IF i > Len(es) THEN Ok(<<"l", acc>>, p, Mx(far, p))
    ELSE LET r == Eval(G, es[i], env, txt, p) IN
         IF r.t = "ill" THEN Ill
         ELSE IF r.t = "fail" THEN Failed(r.e, Mx(far, r.far))
         ELSE EvalSeq(G, es, i + 1, env, txt, r.e, Append(acc, r.v), Mx(far, r.far))

(* ordered choice: every alternative starts at p; commit to the first success *)
EvalChoice(G, es, i, env, txt, p, far) ==
    IF i > Len(es) THEN Failed(p, far)
    ELSE LET r == Eval(G, es[i], env, txt, p) IN
         IF r.t = "ill" THEN Ill
         ELSE IF r.t = "ok" THEN [r EXCEPT !.far = Mx(far, r.far)]
         ELSE EvalChoice(G, es, i + 1, env, txt, p, Mx(far, r.far))

(* e{lo,hi}: greedy, never more than hi (hi < 0: unbounded), fails below lo *)
EvalList(G, e, lo, hi, env, txt, p, acc, far) ==
    IF hi >= 0 /\ Len(acc) >= hi
    THEN (IF Len(acc) >= lo THEN Ok(<<"l", acc>>, p, Mx(far, p)) ELSE Failed(p, Mx(far, p)))
    ELSE LET r == Eval(G, e, env, txt, p) IN
         IF r.t = "ill" THEN Ill
         ELSE IF r.t = "fail"
              THEN (IF Len(acc) >= lo THEN Ok(<<"l", acc>>, p, Mx(far, r.far))
                    ELSE Failed(r.e, Mx(far, r.far)))
         ELSE IF r.e <= p /\ hi < 0 THEN Ill   \* unbounded repetition of something that consumed nothing (or moved back):
                                               \* never ends; with an upper bound it simply counts (Opt("x"){3} gives three values)
         ELSE EvalList(G, e, lo, hi, env, txt, r.e, Append(acc, r.v), Mx(far, r.far))

(* Sep(e, s, discard, trailer, empty, reqsep).  cp = position the list ends *)
(* at if nothing more can be added; n = number of elements so far.          *)
EvalSep(G, x, env, txt, p, cp, acc, sawsep, far, n) ==
    LET o == x[4]
        finish(items, farx) ==
            LET good == IF o[3] /\ o[4] THEN (items = <<>> \/ sawsep)
                        ELSE IF o[4] THEN sawsep
                        ELSE IF o[3] THEN TRUE
                        ELSE items # <<>>
            IN IF good THEN Ok(<<"l", items>>, cp, Mx(farx, cp)) ELSE Failed(p, Mx(farx, p))
        r == Eval(G, x[2], env, txt, p)
    IN IF r.t = "ill" THEN Ill
       ELSE IF r.t = "fail"
            THEN \* a kept separator that turned out to be dangling is dropped again
                 finish(IF ~o[1] /\ ~o[2] /\ acc # <<>> THEN SubSeq(acc, 1, Len(acc) - 1) ELSE acc,
                        Mx(far, r.far))
       ELSE LET acc1 == Append(acc, r.v)
                s == Eval(G, x[3], env, txt, r.e) IN
            IF s.t = "ill" THEN Ill
            ELSE IF s.t = "fail"
                 THEN LET good == IF o[3] /\ o[4] THEN sawsep
                                  ELSE IF o[4] THEN sawsep ELSE TRUE
                      IN IF good THEN Ok(<<"l", acc1>>, r.e, Mx(Mx(far, r.far), s.far))
                         ELSE Failed(r.e, Mx(Mx(far, r.far), s.far))
            ELSE IF s.e <= p THEN Ill      \* element and separator together consumed nothing (or moved back)
            ELSE EvalSep(G, x, env, txt, s.e,
                         IF o[2] THEN s.e ELSE r.e,
                         IF o[1] THEN acc1 ELSE Append(acc1, s.v),
                         TRUE, Mx(Mx(far, r.far), s.far), n + 1)

(* Skip(e1..en): repeat { the first ei that makes progress restarts the round } *)
EvalSkip(G, es, env, txt, p, far) ==
    LET try[i \in 1..(Len(es) + 1)] ==
            \* result of scanning es[i..]: <<"go", q, far>> | <<"stop", far>> | <<"ill">>
            IF i > Len(es) THEN <<"stop", far>>
            ELSE LET r == Eval(G, es[i], env, txt, p) IN
                 IF r.t = "ill" THEN <<"ill">>
                 ELSE IF r.t = "ok" /\ r.e # p THEN <<"go", r.e, r.far>>
                 ELSE IF r.t = "ok" /\ ~Total(es[i]) THEN <<"ill">>
                 ELSE LET rest == try[i + 1] IN
                      IF rest[1] = "stop" THEN <<"stop", Mx(rest[2], r.far)>> ELSE rest
        t == try[1]
    IN IF t[1] = "ill" THEN Ill
       ELSE IF t[1] = "stop" THEN Ok(None, p, Mx(Mx(far, t[2]), p))
       ELSE IF t[2] < p THEN Ill      \* moved backwards (Backtrack inside Skip): not modelled
       ELSE EvalSkip(G, es, env, txt, t[2], Mx(far, t[3]))

(* Longest: all options from p; farthest end wins, first on ties *)
EvalLongest(G, es, i, env, txt, p, best, far) ==
    IF i > Len(es)
    THEN (IF best.t = "ok" THEN [best EXCEPT !.far = Mx(far, best.far)] ELSE Failed(p, far))
    ELSE LET r == Eval(G, es[i], env, txt, p) IN
         IF r.t = "ill" THEN Ill
         ELSE EvalLongest(G, es, i + 1, env, txt, p,
                          IF r.t = "ok" /\ (best.t # "ok" \/ r.e > best.e) THEN r ELSE best,
                          Mx(far, r.far))

(* ---------------------------------------------------------------------- *)
(* Operator tables: Pratt-style reference (see OpSem section below)        *)
(* ---------------------------------------------------------------------- *)
\* rows: << <<assoc, <<op exprs>>>>, ... >>, assoc in
\*   {"left","right","infix","prefix","postfix","mixfix"}; earlier row binds tighter.
\* Binding power of row i (1-based) out of n: n - i + 1  (bigger = tighter).
RowsOf(tbl, kinds) == {i \in 1..Len(tbl[3]) : tbl[3][i][1] \in kinds /\ tbl[3][i][2] # <<>>}

RowExpr(row) == IF Len(row[2]) = 1 THEN row[2][1] ELSE <<"choice", row[2]>>

(* Longest over the rows in `rows` (ascending index), first on ties.        *)
(* Returns [t, v, e, far, row]                                              *)
RECURSIVE OpLongest(_, _, _, _, _, _, _, _, _)
OpLongest(G, tbl, rows, i, env, txt, p, best, far) ==
    IF i > Len(tbl[3])
    THEN [t |-> best.t, v |-> best.v, e |-> best.e, far |-> Mx(far, best.far), row |-> best.row]
    ELSE IF i \notin rows THEN OpLongest(G, tbl, rows, i + 1, env, txt, p, best, far)
    ELSE LET r == Eval(G, RowExpr(tbl[3][i]), env, txt, p) IN
         IF r.t = "ill" THEN [t |-> "ill", v |-> None, e |-> 0, far |-> 0, row |-> 0]
         ELSE OpLongest(G, tbl, rows, i + 1, env, txt, p,
                        IF r.t = "ok" /\ (best.t # "ok" \/ r.e > best.e)
                        THEN [t |-> "ok", v |-> r.v, e |-> r.e, far |-> r.far, row |-> i]
                        ELSE best,
                        Mx(far, r.far))

NoOp(p) == [t |-> "fail", v |-> None, e |-> p, far |-> p, row |-> 0]

(* operand position: Longest(operand, mixfix rows...) - the operand itself is option 1 *)
OpOperand(G, tbl, env, txt, p) ==
    LET a == Eval(G, tbl[2], env, txt, p) IN
    IF a.t = "ill" THEN Ill
    ELSE LET m == OpLongest(G, tbl, RowsOf(tbl, {"mixfix"}), 1, env, txt, p, NoOp(p), p) IN
         IF m.t = "ill" THEN Ill
         ELSE IF m.t = "ok" /\ (a.t # "ok" \/ m.e > a.e) THEN Ok(m.v, m.e, Mx(a.far, m.far))
         ELSE IF a.t = "ok" THEN Ok(a.v, a.e, Mx(a.far, m.far))
         ELSE Failed(p, Mx(a.far, m.far))

BP(tbl, row) == 2 * (Len(tbl[3]) - row + 1)   \* even; "bp - 1" expresses right-associativity

(* Result of OpExpr / OpLed: [t, v, e, far, stop]; stop = TRUE means the     *)
(* whole table expression ends here (non-associative conflict or an          *)
(* operator without operand), so enclosing levels must not continue.         *)
RECURSIVE OpExpr(_, _, _, _, _, _)
RECURSIVE OpLed(_, _, _, _, _, _, _, _, _)

OpR(t, v, e, far, stop) == [t |-> t, v |-> v, e |-> e, far |-> far, stop |-> stop]

OpExpr(G, tbl, env, txt, p, rbp) ==
    LET pre == OpLongest(G, tbl, RowsOf(tbl, {"prefix"}), 1, env, txt, p, NoOp(p), p) IN
    IF pre.t = "ill" THEN OpR("ill", None, 0, 0, TRUE)
    ELSE IF pre.t = "ok" /\ pre.e > p
    THEN LET r == OpExpr(G, tbl, env, txt, pre.e, BP(tbl, pre.row) - 1) IN
         IF r.t # "ok" THEN OpR(r.t, None, p, Mx(pre.far, r.far), TRUE)
         ELSE IF r.stop THEN OpR("ok", <<"P", pre.v, r.v>>, r.e, Mx(pre.far, r.far), TRUE)
         ELSE OpLed(G, tbl, env, txt, <<"P", pre.v, r.v>>, r.e, rbp, 0, Mx(pre.far, r.far))
    ELSE IF pre.t = "ok" THEN OpR("ill", None, 0, 0, TRUE)   \* prefix operator consuming nothing
    ELSE LET a == OpOperand(G, tbl, env, txt, p) IN
         IF a.t # "ok" THEN OpR(a.t, None, p, Mx(pre.far, a.far), TRUE)
         ELSE OpLed(G, tbl, env, txt, a.v, a.e, rbp, 0, Mx(pre.far, a.far))

(* left operand `lv` ends at q; lastInfix = row of the non-associative operator just applied at this level *)
OpLed(G, tbl, env, txt, lv, q, rbp, lastInfix, far) ==
    LET post == OpLongest(G, tbl, RowsOf(tbl, {"postfix"}), 1, env, txt, q, NoOp(q), q) IN
    IF post.t = "ill" THEN OpR("ill", None, 0, 0, TRUE)
    ELSE IF post.t = "ok" /\ post.e = q THEN OpR("ill", None, 0, 0, TRUE)
    ELSE IF post.t = "ok" /\ BP(tbl, post.row) > rbp
    THEN \* the new left operand is a postfix node: a following operator of the
         \* non-associative row is no longer "chained" directly onto that row
         OpLed(G, tbl, env, txt, <<"Q", lv, post.v>>, post.e, rbp, 0, Mx(far, post.far))
    ELSE IF post.t = "ok"
    THEN OpR("ok", lv, q, Mx(far, post.far), FALSE)     \* a looser postfix: an outer level takes it
    ELSE LET inf == OpLongest(G, tbl, RowsOf(tbl, {"left", "right", "infix"}), 1, env, txt, q, NoOp(q), q)
             f1 == Mx(far, Mx(post.far, inf.far)) IN
         IF inf.t = "ill" THEN OpR("ill", None, 0, 0, TRUE)
         ELSE IF inf.t # "ok" THEN OpR("ok", lv, q, f1, TRUE)    \* nothing continues the expression
         ELSE IF inf.e = q THEN OpR("ill", None, 0, 0, TRUE)
         ELSE LET bp == BP(tbl, inf.row)  assoc == tbl[3][inf.row][1] IN
              IF bp <= rbp THEN OpR("ok", lv, q, f1, FALSE)
              ELSE IF assoc = "infix" /\ lastInfix = inf.row THEN OpR("ok", lv, q, f1, TRUE)
              ELSE LET r == OpExpr(G, tbl, env, txt, inf.e, IF assoc = "right" THEN bp - 1 ELSE bp) IN
                   IF r.t = "ill" THEN OpR("ill", None, 0, 0, TRUE)
                   ELSE IF r.t = "fail" THEN OpR("ok", lv, q, Mx(f1, r.far), TRUE)  \* operator without operand
                   ELSE LET node == <<"I", lv, inf.v, r.v>> IN
                        IF r.stop THEN OpR("ok", node, r.e, Mx(f1, r.far), TRUE)
                        ELSE OpLed(G, tbl, env, txt, node, r.e, rbp,
                                   IF assoc = "infix" THEN inf.row ELSE 0, Mx(f1, r.far))

EvalOpTable(G, tbl, env, txt, p) ==
    LET r == OpExpr(G, tbl, env, txt, p, 0) IN
    IF r.t = "ill" THEN Ill
    ELSE IF r.t = "fail" THEN Failed(p, Mx(p, r.far))
    ELSE Ok(r.v, r.e, Mx(r.far, r.e))

(* ---------------------------------------------------------------------- *)
(* Entry points and the three outcomes                                     *)
(* ---------------------------------------------------------------------- *)
EvalEntry(G, entry, txt, p) ==
    IF entry \notin DOMAIN G.rules \/ p > Len(txt) THEN Ill
    ELSE IF G.rules[entry].params # <<>> THEN Ill
    ELSE EvalRule(G, entry, EmptyEnv, txt, p)

(* curried class entry point  C.parse(v1, ..., vn)(text, pos): values bind positionally *)
EvalEntryArgs(G, entry, vals, txt, p) ==
    IF entry \notin DOMAIN G.rules \/ p > Len(txt) THEN Ill
    ELSE LET ps == G.rules[entry].params IN
         IF Len(ps) # Len(vals) THEN Ill
         ELSE EvalRule(G, entry, [x \in {ps[k] : k \in 1..Len(ps)} |->
                                    <<"val", vals[CHOOSE k \in 1..Len(ps) : ps[k] = x]>>], txt, p)

Outcome(G, entry, txt, p, full) ==
    LET r == EvalEntry(G, entry, txt, p) IN
    CASE r.t = "ill"  -> <<"ill">>
      [] r.t = "fail" -> <<"error", p, r.far>>            \* ParseError, index within [p, far]
      [] r.t = "ok" /\ full /\ r.e < Len(txt) -> <<"partial", r.v, r.e>>
      [] OTHER -> <<"ret", r.v, r.e>>
=============================================================================
