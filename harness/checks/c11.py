"""C11 - behaviour does not depend on how the grammar module was produced."""
import json
import os
import random
import shutil
import subprocess
import sys
import tempfile

import engine
import gen
import pegcheck
import realrun
import render
import tlc
from common import MachineryFailure

DRIVER = r'''
import sys, json
sys.path.insert(0, HARNESS)
import realrun                      # projection helpers only (standard library imports)
sys.path.insert(0, DIR)
import importlib, os, sysconfig
stdlib = os.path.realpath(sysconfig.get_paths()['stdlib'])
jobs = json.load(open(os.path.join(DIR, 'jobs.json')))
out = {}
for job in jobs:
    before = set(sys.modules)
    try:
        m = importlib.import_module(job['module'])
    except BaseException as e:
        out[job['module']] = {'import': ['exc', type(e).__name__, str(e)[:300]]}
        continue
    foreign = []
    for name in sorted(set(sys.modules) - before):
        if name == job['module'] or name in job.get('allowed', []):
            continue
        f = getattr(sys.modules[name], '__file__', None)
        if f is None:
            continue                 # built-in / frozen
        if not os.path.realpath(f).startswith(stdlib):
            foreign.append([name, f])
    obs = []
    for run in job['runs']:
        entry, text, pos = run[0], run[1], run[2]
        try:
            fn = m.parse if entry == job['start'] else getattr(m, entry).parse
        except Exception as e:
            obs.append(['exc', type(e).__name__, 'no entry point']); continue
        obs.append(realrun.call_parse(m, fn, realrun.to_text(text, job.get('bytes', False)), pos, True))
    out[job['module']] = {'import': ['ok'], 'foreign': foreign, 'obs': obs, 'doc': m.__doc__}
json.dump(out, sys.stdout)
'''


# compiled between two compilations of the same description: a grammar that defines rules named like the built-in
# constructors (a compilation must not leave anything behind that changes the next one)
POISON = ('start = Opt("q")\n' + ''.join('%s(x) = x\n' % n for n in
          ('Opt', 'Some', 'List', 'Seq', 'Left', 'Right', 'Sep', 'Choice', 'Expect', 'ExpectNot', 'Skip', 'Longest')))


def c11_worker(case):
    """All configurations of one grammar description."""
    import signal
    cid = case['id']
    cfg0 = case.get('cfg') or {}
    bm = cfg0.get('bytes', False)
    res = {}
    d = tempfile.mkdtemp(prefix='verif-c11-')
    jobs = []
    try:
        for named in (False, True):
            name = 'vg_c11_%d' % cid if named else None
            c = dict(case)
            c['cfg'] = dict(cfg0, name=name)
            c['cfg'].pop('include_source', None)
            desc = engine.describe(c)
            start = case['g'].get('start')
            for inc in (False, True):
                for k in (1, 2):
                    if k == 2:
                        realrun.build(POISON)
                    b = realrun.build(desc, include_source=inc)
                    key = 'named=%s include_source=%s compiles=%d' % (named, inc, k)
                    if b[0] != 'ok':
                        res[key] = {'build': list(b)}
                        continue
                    mod = b[1]
                    obs = []
                    for run in case['runs']:
                        try:
                            fn = mod.parse if run[0] == start else getattr(mod, run[0]).parse
                        except Exception as e:  # noqa
                            obs.append(['exc', type(e).__name__, 'no entry point'])
                            continue
                        obs.append(realrun.call_parse(mod, fn, realrun.to_text(run[1], bm), run[2], True))
                    res[key] = {'build': ['ok'], 'obs': obs, 'has_source': hasattr(mod, '_source_code')}
                    if inc and not hasattr(mod, '_source_code'):
                        # reported by the parent ("include_source=True but the module has no _source_code")
                        res['named=%s include_source=True exec_source=True compiles=%d' % (named, k)] = \
                            {'import': ['exc', 'no _source_code', 'nothing to save']}
                        continue
                    if inc:
                        modname = 'saved_%s_%d_%d' % ('n' if named else 'u', cid, k)
                        with open(os.path.join(d, modname + '.py'), 'w') as f:
                            f.write(mod._source_code)
                        jobs.append({'module': modname, 'runs': case['runs'], 'start': start, 'bytes': bm,
                                     'key': 'named=%s include_source=True exec_source=True compiles=%d' % (named, k)})
            # (the module stays installed under its name while the other configurations of the same description are
            # compiled - as in a process that simply calls Grammar() again - and is removed at the end)
            if name:
                sys.modules.pop(name, None)
        # a header whose name is also the name of a rule of the grammar (the rule declared first; `start` moved last):
        # the name of a grammar is a label, it selects nothing
        others = [r for r in case['g']['rules'] if r != case['g'].get('start') and r.isidentifier()]
        if others and case['g'].get('start') in case['g']['rules'] and cid % 3 == 0 and others[0] not in sys.modules:
            c = dict(case)
            order = others + [case['g']['start']]
            c['cfg'] = dict(cfg0, name=others[0], order=order)
            c['cfg'].pop('include_source', None)
            try:
                b = realrun.build(engine.describe(c))
                key = 'named=like-a-rule'
                if b[0] != 'ok':
                    res[key] = {'build': list(b)}
                else:
                    mod = b[1]
                    obs = []
                    for run in case['runs']:
                        try:
                            fn = mod.parse if run[0] == case['g']['start'] else getattr(mod, run[0]).parse
                        except Exception as e:  # noqa
                            obs.append(['exc', type(e).__name__, 'no entry point'])
                            continue
                        obs.append(realrun.call_parse(mod, fn, realrun.to_text(run[1], bm), run[2], True))
                    res[key] = {'build': ['ok'], 'obs': obs, 'has_source': False}
            finally:
                sys.modules.pop(others[0], None)
        with open(os.path.join(d, 'jobs.json'), 'w') as f:
            json.dump(jobs, f)
        with open(os.path.join(d, 'driver.py'), 'w') as f:
            f.write('HARNESS = %r\nDIR = %r\n' % (os.path.dirname(os.path.abspath(__file__)).rsplit('/checks', 1)[0], d) + DRIVER)
        try:
            p = subprocess.run([sys.executable, '-I', '-S', os.path.join(d, 'driver.py')], capture_output=True, text=True,
                               timeout=120)
            if p.returncode != 0:
                res['exec'] = {'driver-failed': (p.stderr or '')[-600:]}
            else:
                out = json.loads(p.stdout)
                for job in jobs:
                    res[job['key']] = out.get(job['module'], {'import': ['missing']})
        except subprocess.TimeoutExpired:
            res['exec'] = {'driver-failed': 'timeout'}
    finally:
        shutil.rmtree(d, ignore_errors=True)
    return {'id': cid, 'desc': engine.describe(case), 'build': ['ok'], 'obs': res}


engine.register('c11_worker', c11_worker)

# ---- the emitted source of a grammar that extends another one (it needs the parent module, saved likewise) ----
EXT_PARENT = {'anon': 'ignore / +/\n', 'named': 'ignore Blank = / +/\n'}
EXT_CHILD = {'anon': 'ignore "-"\n', 'named': 'ignore Dash = "-"\n', 'none': ''}
EXT_TEXTS = ['abc def', 'ab -cd', 'a , b', 'a,-b', ' ab', 'ab', 'a, b ,c', '-a', 'a - , - b']


def c11_extends_worker(case):
    """Parent and child are compiled with include_source=True; the child's behaviour in memory must equal the behaviour
    of its saved source imported in a separate interpreter (next to the saved source of the parent)."""
    cid, pk, ck = case['id'], case['parent'], case['child']
    par, chi = 'vg_c11x_par_%d' % cid, 'vg_c11x_chi_%d' % cid
    pdesc = 'grammar %s\n%sstart = Word+\nWord = /[a-z]+/\nQuoted = """q""" | \'\'\'r\'\'\'\n' % (par, EXT_PARENT[pk])
    cdesc = 'grammar %s extends %s\n%sPair = [Word, ",", Word]\nList = Word /? ","\n' % (chi, par, EXT_CHILD[ck])
    runs = [[e, [ord(ch) for ch in t], 0] for e in ('start', 'Pair', 'List') for t in EXT_TEXTS]
    res = {'desc': pdesc + '\n' + cdesc}
    d = tempfile.mkdtemp(prefix='verif-c11x-')
    try:
        bp = realrun.build(pdesc, include_source=True)
        bc = realrun.build(cdesc, include_source=True) if bp[0] == 'ok' else bp
        if bc[0] != 'ok':
            res['build'] = list(bc)
            return {'id': cid, 'desc': res['desc'], 'build': ['ok'], 'obs': res}
        mp, mc = bp[1], bc[1]
        res['docs'] = [mp.__doc__, mc.__doc__]
        res['memory'] = [realrun.call_parse(mc, mc.parse if e == 'start' else getattr(mc, e).parse,
                                            realrun.to_text(t), p, True)[:3] for e, t, p in runs]
        for name, m in ((par, mp), (chi, mc)):
            with open(os.path.join(d, name + '.py'), 'w') as f:
                f.write(m._source_code)
        jobs = [{'module': chi, 'runs': runs, 'start': 'start', 'bytes': False, 'allowed': [par]},
                {'module': par, 'runs': [], 'start': 'start', 'bytes': False, 'allowed': []}]
        with open(os.path.join(d, 'jobs.json'), 'w') as f:
            json.dump(jobs, f)
        with open(os.path.join(d, 'driver.py'), 'w') as f:
            f.write('HARNESS = %r\nDIR = %r\n' % (os.path.dirname(os.path.abspath(__file__)).rsplit('/checks', 1)[0], d) + DRIVER)
        try:
            p = subprocess.run([sys.executable, '-I', '-S', os.path.join(d, 'driver.py')], capture_output=True, text=True,
                               timeout=120)
            if p.returncode != 0:
                res['exec'] = {'driver-failed': (p.stderr or '')[-600:]}
            else:
                res['saved'] = json.loads(p.stdout).get(chi, {'import': ['missing']})
                res['saved_parent'] = json.loads(p.stdout).get(par, {'import': ['missing']})
        except subprocess.TimeoutExpired:
            res['exec'] = {'driver-failed': 'timeout'}
    finally:
        sys.modules.pop(par, None)
        sys.modules.pop(chi, None)
        shutil.rmtree(d, ignore_errors=True)
    res['runs'] = runs
    return {'id': cid, 'desc': res['desc'], 'build': ['ok'], 'obs': res}


engine.register('c11_extends_worker', c11_extends_worker)


def sample(cases, n, rng, max_runs=24, stratum=None):
    if stratum is not None:
        # the same number of cases from every stratum (e.g. every ignore set), so that no kind depends on the draw
        groups = {}
        for c in sorted(cases, key=lambda c: json.dumps([c['g'], c.get('cfg')], sort_keys=True)):
            groups.setdefault(stratum(c), []).append(c)
        out = []
        for k in sorted(groups):
            out += sample(groups[k], max(1, n // len(groups)), rng, max_runs)
        return out
    # TLC prints the cases in an order that depends on its worker threads: sort them first, so that a seed always
    # selects the same cases
    cases = sorted(cases, key=lambda c: json.dumps([c['g'], c.get('cfg')], sort_keys=True))
    # the families contain each grammar with and without a header; here the header is a configuration, so keep one of each
    uniq, seen = [], set()
    for c in cases:
        k = json.dumps([c['g'], {x: v for x, v in (c.get('cfg') or {}).items() if x != 'name'}], sort_keys=True)
        if k not in seen:
            seen.add(k)
            uniq.append(c)
    cases = uniq
    pick = cases if len(cases) <= n else rng.sample(cases, n)
    out = []
    for c in pick:
        c = dict(c)
        # (curried entry points C.parse(values)(text) are C06's / C08's business; the workers here call entry.parse(text))
        idx = [i for i in range(len(c['runs'])) if not isinstance(c['runs'][i][0], list)]
        # prefer runs that match (so that values, not only failures, are compared)
        good = [i for i in idx if c['exp'][i][0] == 'ok' and c['exp'][i][2] > 0]
        rest = [i for i in idx if i not in good]
        rng.shuffle(good)
        rng.shuffle(rest)
        keep = sorted((good[: max_runs * 2 // 3] + rest)[:max_runs])
        c['runs'] = [c['runs'][i] for i in keep]
        c['exp'] = [c['exp'][i] for i in keep]
        cfg = dict(c.get('cfg') or {})
        cfg.pop('name', None)
        if len(out) % 2 and 'style' not in cfg:
            cfg['style'] = {'variant': 1}            # constructor spellings: Opt(..), Seq(..), Sep(..), ...
        c['cfg'] = cfg
        out.append(c)
    return out


def run(chk):
    chk.rule = ('cases = (grammar description, configuration, entry, input); configurations = the 12 states of MC_C11 '
                '({named, unnamed} x {include_source} x {in-memory, emitted source saved and executed in a fresh '
                '`python -I -S` interpreter} x compiled once/twice); grammars = a feature-covering slice of the TLC '
                'families of C02-C06, C10, C17 (templates and every argument kind, bindings, classes with spans, ignore, '
                'operator tables, code spilled into helper functions), expectations from those TLC runs; every '
                'configuration must show the spec outcome (hence all agree), the isolated interpreter may import only '
                'standard-library modules; non-trivial = matching run; distinct by (description, configuration, input)')
    chk.assumptions += ['PegSem has no configuration parameter (MC_C11!ConfigIndependent)',
                        'the saved source is executed under `python -I -S` with only its own directory on sys.path']
    cfgs = []
    r = tlc.run('MC_C11', 'MC_C11', on_json=cfgs.append, timeout_s=300, workers=2)
    chk.add_tlc(r, 'MC_C11')
    want_keys = set()
    for c in cfgs:
        k = 'named=%s include_source=%s%s compiles=%d' % (c['named'], c['include_source'],
                                                          ' exec_source=True' if c['exec_source'] else '', c['compiles'])
        want_keys.add(k)
    rng = random.Random(chk.seed * 7919 + 11)
    big = chk.tier != 'quick'
    pool = []
    for mod, n in (('MC_C06', 60), ('MC_C05', 80 if big else 30), ('MC_C10', 14), ('MC_C04', 40 if big else 16),
                   ('MC_C17', 80 if big else 30), ('MC_C03', 40 if big else 16)):
        cs = pegcheck.collect(chk, mod, mod + '_quick', timeout_s=1500)
        cs = pegcheck.drop_ill(chk, cs)
        if mod == 'MC_C17':
            cs = [c for c in cs if 'grammar vg_c17' not in json.dumps(c.get('cfg'))]
        if mod == 'MC_C04':
            pool += sample(cs, 24 if not big else 48, rng, stratum=lambda c: json.dumps(c['g'].get('ign')))
        else:
            pool += sample(cs, n, rng)
    ocases = []
    for i in range(12 if not big else 40):
        og = gen.OpGen(rng)
        g = og.grammar(3, ctx=i % 6)
        ocases.append({'id': i, 'g': g, 'cfg': {}, 'runs': [['start', og.sentence(table=og.last_table), 0] for _ in range(20)]})
    pegcheck.with_oracle(chk, ocases)
    pool += pegcheck.drop_ill(chk, ocases)
    for i, c in enumerate(pool):
        c['id'] = i
    recs = engine.run_real(pool, fn='c11_worker', batch=2)
    for c in pool:
        rec = recs[c['id']]
        if rec['build'][0] != 'ok':
            raise MachineryFailure('c11 worker: %r' % (rec['build'],))
        res = rec['obs']
        desc = rec['desc']
        if 'exec' in res:
            raise MachineryFailure('isolated driver failed: %s' % res['exec'])
        missing = want_keys - set(res)
        if missing:
            raise MachineryFailure('configurations not produced: %s' % sorted(missing))
        base = None
        for key in sorted(want_keys) + (['named=like-a-rule'] if 'named=like-a-rule' in res else []):
            v = res[key]
            chk.traces += 1
            if 'build' in v and v['build'][0] != 'ok':
                chk.count([desc, key], True)
                chk.violation('Grammar() failed under configuration [%s]: %s | %s' % (key, v['build'][1:], desc.replace('\n', ' ; ')[:400]),
                              {'desc': desc, 'config': key, 'build': v['build']})
                continue
            if 'import' in v and v['import'][0] != 'ok':
                chk.count([desc, key], True)
                chk.violation('the saved source cannot be executed on its own [%s]: %s | %s' % (key, v['import'], desc.replace('\n', ' ; ')[:400]),
                              {'desc': desc, 'config': key, 'import': v['import']})
                continue
            if v.get('foreign'):
                chk.violation('the saved source imports non-standard-library modules [%s]: %s' % (key, v['foreign']),
                              {'desc': desc, 'config': key, 'foreign': v['foreign']})
            if 'include_source=True' in key and 'exec_source' not in key and not v.get('has_source'):
                chk.violation('include_source=True but the module has no _source_code [%s]' % key, {'desc': desc, 'config': key})
            for rrun, x, o in zip(c['runs'], c['exp'], v['obs']):
                chk.count([desc, key, rrun], x[0] == 'ok')
                why = engine.judge_run(x, o, rrun[2])
                if why:
                    chk.violation('%s under configuration [%s] | grammar: %s | text %r | spec %s | observed %s'
                                  % (why, key, desc.replace('\n', ' ; ')[:400], pegcheck.text_of(rrun[1]), x, o),
                                  {'desc': desc, 'config': key, 'run': rrun, 'expected': x, 'observed': o, 'why': why})
            # all configurations agree also on what the spec leaves open (the exact error index)
            sig = [o[:3] if o[0] == 'ok' else o[:2] for o in v['obs']]
            if base is None:
                base = (key, sig)
            elif sig != base[1]:
                k = next(i for i, (a, b) in enumerate(zip(sig, base[1])) if a != b)
                chk.violation('configurations [%s] and [%s] disagree on text %r: %s vs %s | grammar: %s'
                              % (key, base[0], pegcheck.text_of(c['runs'][k][1]), sig[k], base[1][k], desc.replace('\n', ' ; ')[:300]),
                              {'desc': desc, 'configs': [key, base[0]], 'run': c['runs'][k]})
        if len(chk.samples) < 2:
            chk.sample({'description': desc, 'configurations': sorted(want_keys)[:3], 'first_run': c['runs'][0],
                        'spec': c['exp'][0][:3]})
    # grammars that extend another one: in memory vs saved sources of child and parent in a separate interpreter
    xcases = [{'id': i, 'parent': pk, 'child': ck}
              for i, (pk, ck) in enumerate((a, b) for a in sorted(EXT_PARENT) for b in sorted(EXT_CHILD))]
    xrecs = engine.run_real(xcases, fn='c11_extends_worker', batch=1)
    for xc in xcases:
        res = xrecs[xc['id']]['obs']
        if xrecs[xc['id']]['build'][0] != 'ok' or 'exec' in res:
            raise MachineryFailure('c11 extends worker: %r %r' % (xrecs[xc['id']]['build'], res.get('exec')))
        desc = res['desc']
        chk.traces += 1
        chk.count([desc, 'extends'], True)
        if 'build' in res:
            chk.violation('Grammar() failed for a parent/child pair with include_source=True: %s | %s'
                          % (res['build'][1:], desc.replace('\n', ' ; ')), {'desc': desc, 'build': res['build']})
            continue
        sv = res['saved']
        if 'import' in sv and sv['import'][0] != 'ok':
            chk.violation('the saved source of a grammar that extends another cannot be executed next to the saved source '
                          'of its parent: %s | %s' % (sv['import'], desc.replace('\n', ' ; ')), {'desc': desc, 'import': sv['import']})
            continue
        if sv.get('foreign'):
            chk.violation('the saved source imports modules other than the standard library and its parent: %s' % sv['foreign'],
                          {'desc': desc, 'foreign': sv['foreign']})
        # the description travels with the module (a grammar that extends the saved module is compiled from it)
        for who, mem_doc, saved in (('child', res['docs'][1], sv), ('parent', res['docs'][0], res.get('saved_parent') or {})):
            if saved.get('import', ['ok'])[0] == 'ok' and (saved.get('doc') or '').strip() != (mem_doc or '').strip():   # (blank lines at the ends aside)
                chk.violation('__doc__ of the saved source of the %s differs from the description the in-memory module carries: '
                              '%r vs %r' % (who, (saved.get('doc') or '')[:120], (mem_doc or '')[:120]), {'desc': desc, 'who': who})
        for rrun, a, b in zip(res['runs'], res['memory'], sv['obs']):
            chk.count([desc, 'extends', rrun], a[0] == 'ok')
            sa = a[:3] if a[0] == 'ok' else a[:2]
            sb = b[:3] if b[0] == 'ok' else b[:2]
            if sa != sb:
                chk.violation('in-memory module and saved source of a grammar that extends another disagree | entry %s text %r '
                              '| memory %s | saved %s | %s' % (rrun[0], pegcheck.text_of(rrun[1]), sa, sb, desc.replace('\n', ' ; ')),
                              {'desc': desc, 'run': rrun, 'memory': a, 'saved': b})
    chk.notes['extends_pairs'] = len(xcases)
    chk.notes['grammars'] = len(pool)
    chk.notes['configurations'] = sorted(want_keys)
