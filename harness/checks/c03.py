"""C03 - bounded repetition and separated lists honour their bounds and options."""
import random

import gen
import engine
import pegcheck


def run(chk):
    chk.rule = ('cases = (grammar, input); grammars enumerated by TLC (MC_C03: element kinds x separator kinds x all '
                'bound forms 0..3 x bounds read from the input via let / class let-field / template parameter x all '
                'accepted Sep option vectors x enclosing contexts) plus seeded random core grammars rich in '
                'repetitions and Sep judged by the same specification; non-trivial = well-formed per the '
                'specification; distinct by (description, input)')
    chk.assumptions += ['PegSem!EvalList / EvalSep are the documented meaning of e{m,n} and Sep(...); LawBounds and '
                        'LawSepShape are model-checked on every member']
    cases = pegcheck.collect(chk, 'MC_C03', 'MC_C03_' + chk.tier, timeout_s=3000)
    chk.notes['tlc_enumerated_grammars'] = len(cases)
    # the separated lists again with their options passed by position (Sep(e, s, False, True) ...)
    extra = engine.with_cfg_variant(cases, 'sep_positional')
    for k, c in enumerate(extra):
        c['id'] = len(cases) + k
    chk.notes['positional_sep_option_spellings'] = len(extra)
    pegcheck.replay(chk, cases + extra, sample_every=20011)
    # seeded random grammars made mostly of repetitions and separated lists, nested in each other
    rng = random.Random(chk.seed * 7919 + 3)
    n = 1000 if chk.tier == 'quick' else 12000
    texts = gen.all_texts('ab,', 4) + [gen.T(x) for x in ['a,a,a', 'ab,ab,', 'a,,a', 'aaa,b', 'a,b,a,b', 'abab,,']]
    rcases = []
    for i in range(n):
        rg = gen.RepGen(rng, refs=('R1',))
        g = rg.grammar(3 if i % 2 else 2)
        rcases.append({'id': i, 'g': g, 'cfg': {'prop': 'C03'}, 'runs': [['start', t, 0] for t in texts]})
    pegcheck.with_oracle(chk, rcases)
    chk.notes['random_grammars'] = len(rcases)
    pegcheck.replay(chk, rcases, sample_every=29989)
