----------------------------- MODULE MC_Bootstrap -----------------------------
(* Design-level check of Bootstrap: with a generator that is a function of   *)
(* the installed parser's BEHAVIOUR only (Gen), equal behaviour of           *)
(* generations 0 and 1 implies the fixed point - the reason the recorded     *)
(* history has to establish SameLanguage and may then expect FixedPoint.     *)
EXTENDS Bootstrap
CONSTANTS Shas
Next == \/ \E s \in Shas : Generate(s)
        \/ \E g \in 1..2, ok \in BOOLEAN : SelfParse(g, ok)
        \/ \E g \in 1..2 : Install(g)
        \/ \E d \in 1..2, same \in BOOLEAN : Compare(d, same)
        \/ \E s \in Shas : Regenerate(s)
TypeOK == redo \in [1..2 -> SUBSET Shas] /\ installed \in 0..2 /\ selfok \subseteq 1..2 /\ agree \subseteq 1..2 /\ differ \subseteq 1..2
OnlySelfHostingInstalled == installed # 0 => installed \in selfok
=============================================================================
