CONSTANTS
  Tier = "quick"
INIT Init
NEXT Next
INVARIANT LawLengthen
CHECK_DEADLOCK FALSE
